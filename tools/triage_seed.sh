#!/bin/bash
# triage_seed.sh <Cxx> [worktree-prefix] : confirm the sub-agent's change, then run the property's quick check against the worktree
C=$1; W=${2:-/tmp/seed13}_$C
/verif/tools/verify_seed.sh $W > /tmp/triage_$C.log 2>&1; v=$?
tail -1 /tmp/triage_$C.log
[ $v -ne 0 ] && { grep -A3 'demo-with' /tmp/triage_$C.log; exit 1; }
demo=$(git -C $W status --porcelain | grep '^??' | awk '{print $2}' | grep '_test.go$' | head -1)
mv $W/$demo /tmp/triage_${C}_demo.keep      # the demo is not part of the change the checks look at
/verif/tools/seed_run_wt.sh $W quick $C | tee -a /tmp/triage_$C.log
mv /tmp/triage_${C}_demo.keep $W/$demo
