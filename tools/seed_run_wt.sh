#!/bin/bash
# seed_run_wt.sh <worktree-with-change-applied> <tier> <check>... : run checks against a scratch worktree that carries a
# seeded change (VERIF_REPO), so several seeds can be triaged in parallel without touching /repo. Same verdict as
# seed_run.sh (apply to /repo, run, undo); evidence goes to a scratch directory.
W=$1; T=$2; shift 2
export VERIF_REPO=$W VERIF_EVIDENCE_DIR=/verif/out/experiment-evidence/$(basename $W)
mkdir -p $VERIF_EVIDENCE_DIR
for c in "$@"; do
  L=/tmp/seedrun_$(basename $W)_$c.log
  /verif/bin/vcheck $c --tier $T > $L 2>&1; rc=$?
  echo "$(basename $W) $c exit=$rc $(grep -c '^VIOLATION' $L) violation lines; $(grep -m1 'counterexample\|violation (not' $L | cut -c1-220)"
  grep '^inconclusive' $L | head -3
done
exit 0
