#!/bin/bash
# seed_regress.sh [tier] : every seeded change under /verif/seeded must be reported (exit 1) by its property's check.
# Applies each patch to /repo's working tree, runs the check, undoes the patch. /repo must be clean and idle.
export VERIF_EVIDENCE_DIR=/verif/out/experiment-evidence   # never overwrite the committed evidence from a modified tree
T=${1:-quick}
git -C /repo status --porcelain | grep -v '^??' | grep . && { echo "/repo not clean"; exit 2; }
fail=0
for d in /verif/seeded/S*; do
  # seeded changes recorded as lying outside the claimed bounds (DESIGN.md 11.6 (m)): reported, not counted as failures
  if python3 -c "import json,sys;sys.exit(0 if 'expected_regress' in json.load(open('$d/meta.json')) else 1)"; then echo "$(basename $d): known miss (outside the claim), skipped"; continue; fi
  prop=$(python3 -c "import json;print(json.load(open('$d/meta.json'))['breaks_property'])")
  if ! git -C /repo apply --check $d/patch.diff 2>/dev/null; then echo "$(basename $d): patch no longer applies"; continue; fi
  git -C /repo apply $d/patch.diff
  timeout 1800 /verif/bin/vcheck $prop --tier $T > /tmp/seedreg.log 2>&1; rc=$?
  git -C /repo checkout -- . ; git -C /repo clean -fdq 2>/dev/null
  v=$(grep -c '^VIOLATION' /tmp/seedreg.log)
  echo "$(basename $d): $prop exit=$rc violations=$v"
  [ $rc -ne 1 ] && { fail=1; grep '^inconclusive' /tmp/seedreg.log | head -2; }
done
exit $fail
