#!/bin/bash
# keep_seed.sh <worktree> <Snnn> <Cxx> <round> <needs> <caught_by> <first_run> : store a confirmed seeded change under /verif/seeded
W=$1; S=$2; C=$3; R=$4; NEEDS=$5; CAUGHT=$6; FIRST=$7
D=/verif/seeded/$S-$C; mkdir -p $D
git -C $W diff > $D/patch.diff
demo=$(git -C $W status --porcelain | grep '^??' | awk '{print $2}' | grep '_test.go$' | head -1)
cp $W/$demo $D/
python3 - "$W" "$S" "$C" "$R" "$NEEDS" "$CAUGHT" "$FIRST" "$demo" <<'PY'
import json,sys,os
W,S,C,R,NEEDS,CAUGHT,FIRST,demo=sys.argv[1:9]
notes=open(os.path.join(W,'SEED_NOTES.txt')).read() if os.path.exists(os.path.join(W,'SEED_NOTES.txt')) else ''
m={"seed":S,"round":int(R),"breaks_property":C,"needs_to_manifest":NEEDS,"demo":[os.path.basename(demo)],
"demo_package_dir":os.path.dirname(demo) or ".",
"confirmed_by_me":"tools/verify_seed.sh in the sub-agent's scratch worktree: demo FAILS with the change, existing suite (6 packages) PASSES with the change, demo PASSES without the change",
"checks_run":"tools/seed_run_wt.sh <worktree> quick "+C+" (VERIF_REPO = the scratch worktree carrying the change; same engine, harnesses and jobs as the registered command)",
"caught_by":CAUGHT,"first_run":FIRST,"author_notes":notes}
json.dump(m,open(f"/verif/seeded/{S}-{C}/meta.json","w"),indent=1)
PY
ls $D
