#!/bin/bash
# revert_fixes.sh : for every fixed finding, revert its fix: commit in /repo's working tree (uncommitted), run the
# property's quick check, expect exit 1, and restore the tree. Natural "seeded changes": each pre-fix state passes
# the existing test suite by construction.
export VERIF_EVIDENCE_DIR=/verif/out/experiment-evidence   # never overwrite the committed evidence from a modified tree
cd /repo || exit 2
git status --porcelain | grep -v '^??' | grep . && { echo "/repo not clean"; exit 2; }
python3 - <<'PY' > /tmp/fixlist.txt
import json
k=json.load(open('/verif/known_findings.json'))
for f in k['findings']:
    if f['status']=='fixed': print(f['id'], f['commit'], f['property'])
PY
while read id commit prop; do
  if ! git revert --no-commit $commit > /tmp/revert.log 2>&1; then
    git revert --abort 2>/dev/null; git reset -q --hard HEAD
    echo "$id $commit $prop : revert conflicts (later fixes build on it) — skipped"
    continue
  fi
  if ! (GOFLAGS=-mod=mod GOPROXY=off go build ./... > /tmp/revert_build.log 2>&1); then
    git revert --abort 2>/dev/null; git reset -q --hard HEAD
    echo "$id $commit $prop : reverted tree does not compile — skipped"
    continue
  fi
  git reset -q   # unstage: leave the change in the working tree only
  timeout 1500 /verif/bin/vcheck $prop --tier quick > /tmp/revert_$id.log 2>&1; rc=$?
  echo "$id $commit $prop : exit=$rc $(grep -c '^VIOLATION' /tmp/revert_$id.log) VIOLATION lines; $(grep -m1 'counterexample\|violation (not' /tmp/revert_$id.log | cut -c1-160)"
  git checkout -q -- . ; git clean -fdq -e 'zz_*' 2>/dev/null
  git status --porcelain | grep -v '^??' | grep . && { echo "tree not clean after $id"; git reset -q --hard HEAD; }
done < /tmp/fixlist.txt
