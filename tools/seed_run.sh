#!/bin/bash
# seed_run.sh <patch> <tier> <check>... : apply a seeded change to /repo, run checks, undo it
export VERIF_EVIDENCE_DIR=/verif/out/experiment-evidence   # never overwrite the committed evidence from a modified tree
P=$1; T=$2; shift 2
git -C /repo status --porcelain | grep -v '^??' | grep . && { echo "/repo not clean"; exit 2; }
git -C /repo apply $P || exit 2
for c in "$@"; do
  /verif/bin/vcheck $c --tier $T > /tmp/seedrun_$c.log 2>&1; rc=$?
  echo "$c exit=$rc $(grep -c '^VIOLATION' /tmp/seedrun_$c.log) violation lines; $(grep -m1 'counterexample\|violation (not' /tmp/seedrun_$c.log | cut -c1-220)"
  grep '^inconclusive' /tmp/seedrun_$c.log | head -3
done
git -C /repo checkout -- .
git -C /repo status --porcelain | grep -v '^??' | grep . && echo "WARNING: /repo not clean after undo"
exit 0
