#!/bin/bash
# verify_seed.sh <worktree> : confirm a seeded change (suite passes with it; demo fails with it, passes without)
set -u
W=$1; TAG=$(basename $1)
export GOFLAGS=-mod=mod GOPROXY=off GOSUMDB=off GOTOOLCHAIN=local
cd $W || exit 2
demo=$(git status --porcelain | grep '^??' | awk '{print $2}' | grep '_test.go$' | head -1)
[ -z "$demo" ] && { echo "no demo test found"; exit 2; }
pkg=./$(dirname $demo)
echo "demo=$demo pkg=$pkg"
git diff --stat | tail -2
# 1. demo with change
go test -vet=off -count=1 -timeout 10m -run 'Seed' $pkg > /tmp/vs_${TAG}_with.log 2>&1; rc_with=$?
# 2. suite with change (demo moved aside)
mv $demo /tmp/vs_${TAG}_demo.go.keep
go test -vet=off -count=1 -timeout 20m . ./datafile ./index ./fio ./utils ./datatype > /tmp/vs_${TAG}_suite.log 2>&1; rc_suite=$?
mv /tmp/vs_${TAG}_demo.go.keep $demo
# 3. demo without change
git diff > /tmp/vs_${TAG}_patch.diff
git checkout -- . 
go test -vet=off -count=1 -timeout 10m -run 'Seed' $pkg > /tmp/vs_${TAG}_without.log 2>&1; rc_without=$?
git apply /tmp/vs_${TAG}_patch.diff
echo "demo-with-change rc=$rc_with (want !=0); suite-with-change rc=$rc_suite (want 0); demo-without-change rc=$rc_without (want 0)"
tail -3 /tmp/vs_${TAG}_with.log
if [ $rc_with -ne 0 ] && [ $rc_suite -eq 0 ] && [ $rc_without -eq 0 ]; then echo CONFIRMED; exit 0; else echo NOT-CONFIRMED; tail -5 /tmp/vs_${TAG}_suite.log /tmp/vs_${TAG}_without.log; exit 1; fi
