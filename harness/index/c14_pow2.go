package index

// verifHarnessC14Pow2: for EVERY 64-bit ShardNum >= 1 the shard count is a power of two in [1,1024], at least
// min(n,1024), and hash&(cap-1) indexes inside the shard slice. No bound: one bit-vector query per assertion.
func verifHarnessC14Pow2() {
	n := verifInt("n")
	verifAssume(n >= 1)
	r := nextPowerOfTwo(n)
	verifAssert(r >= 1, "C14.pow2-positive")
	verifAssert(r <= MaxCap, "C14.pow2-cap")
	verifAssert(r&(r-1) == 0, "C14.pow2-power-of-two")
	lim := n
	if lim > MaxCap {
		lim = MaxCap
	}
	verifAssert(r >= lim, "C14.pow2-at-least-n")
	h := verifU64("hash")
	idx := h & uint64(r-1)
	verifAssert(idx < uint64(r), "C14.pow2-index-in-range")
	verifReach("done")
	if verifParam("witness") == 1 {
		verifAssert(false, "witness")
	}
}
