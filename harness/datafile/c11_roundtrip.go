package datafile

import (
	"io"
	"os"

	"github.com/XiXi-2024/xixi-kv/fio"
)

// verifHarnessC11Scaled: N records of solver-chosen lengths (all symbolic content) are appended to a data
// file at a scaled block size, then read back randomly (by position) and sequentially.
// Params: n (records), maxlen (max value length), io (0 standard, 1 mmap), batch (1: staged multi-record flush).
func verifHarnessC11Scaled() {
	n := verifParam("n")
	maxLen := verifParam("maxlen")
	ioType := fio.FileIOType(verifParam("io"))
	staged := verifParam("batch") == 1
	dir := verifDir("c11")
	if err := os.MkdirAll(dir, 0755); err != nil {
		verifAssert(false, "C11.setup")
	}
	df, err := OpenFile(dir, 0, DataFileSuffix, ioType)
	verifAssert(err == nil, "C11.open")
	hdr := make([]byte, MaxLogRecordHeaderSize)

	keys := make([][]byte, n)
	vals := make([][]byte, n)
	poss := make([]*DataPos, n)
	for i := 0; i < n; i++ {
		// lengths are symbolic: the solver enumerates every feasible value at the allocation site
		kl := verifInt("klen")
		verifAssume(kl >= 1)
		verifAssume(kl <= 2)
		vl := verifInt("vlen")
		verifAssume(vl >= 0)
		verifAssume(vl <= maxLen)
		keys[i] = verifBytes("k", kl)
		vals[i] = verifBytes("v", vl)
		rec := &LogRecord{Key: keys[i], Value: vals[i], Type: LogRecordNormal}
		if staged {
			df.WriteStagedLogRecord(rec, hdr)
		} else {
			p, err := df.WriteLogRecord(rec, hdr)
			verifAssert(err == nil, "C11.write")
			poss[i] = p
		}
	}
	if staged {
		ps, err := df.FlushStaged()
		verifAssert(err == nil, "C11.flush")
		verifAssert(len(ps) == n, "C11.flush-count")
		copy(poss, ps)
	}
	// logical size equals physical size
	verifAssert(df.Size() == verifFSLen(GetFileName(dir, 0, DataFileSuffix)) || ioType == fio.MemoryMap, "C11.logical==physical")
	if ioType == fio.MemoryMap {
		sz, _ := df.ReadWriter.Size()
		verifAssert(df.Size() == sz, "C11.logical==virtual")
	}
	// positions: consecutive, sizes add up
	for i := 0; i < n; i++ {
		abs := int64(poss[i].BlockID)*blockSize + int64(poss[i].Offset)
		if i+1 < n {
			nxt := int64(poss[i+1].BlockID)*blockSize + int64(poss[i+1].Offset)
			// the next record starts at the end of this one, or at the next block start after tail padding
			end := abs + int64(poss[i].Size)
			padded := end
			if end%blockSize+chunkHeaderSize >= blockSize && end%blockSize != 0 {
				padded = (end/blockSize + 1) * blockSize
			}
			verifAssert(nxt == padded, "C11.size-consecutive")
			if padded != end {
				verifReach("padded-tail")
			}
		} else {
			verifAssert(abs+int64(poss[i].Size) == df.Size(), "C11.size-last")
		}
		if poss[i].Size > blockSize {
			verifReach("multi-chunk")
		}
	}
	readAll := func(df *DataFile, id string) {
		// random reads
		for i := range poss {
			got, err := df.ReadRecordValue(poss[i])
			verifAssert(err == nil, id+".random-err")
			verifAssert(len(got) == len(vals[i]), id+".random-len")
			verifAssert(verifBytesEq(got, vals[i]), id+".random-bytes")
		}
		// sequential reads
		r := df.NewReader()
		for i := range poss {
			rec, pos, err := r.NextLogRecord()
			verifAssert(err == nil, id+".seq-err")
			verifAssert(*pos == *poss[i], id+".seq-pos")
			verifAssert(len(rec.Key) == len(keys[i]) && len(rec.Value) == len(vals[i]), id+".seq-len")
			verifAssert(verifAnd(verifBytesEq(rec.Key, keys[i]), verifBytesEq(rec.Value, vals[i])), id+".seq-bytes")
		}
		_, _, err := r.NextLogRecord()
		verifAssert(err == io.EOF, id+".seq-eof")
	}
	readAll(df, "C11")
	if verifParam("reopen") == 1 {
		// the file is closed and opened again (possibly through the other back-end): same size, same records at the
		// same positions, and a record appended afterwards continues the framing exactly where the writer left off
		end := df.Size()
		verifAssert(df.Close() == nil, "C11.close")
		ioType2 := ioType
		if verifParam("r_io") != 0 {
			ioType2 = fio.FileIOType(verifParam("r_io") - 1)
		}
		df, err = OpenFile(dir, 0, DataFileSuffix, ioType2)
		verifAssert(err == nil, "C11.reopen")
		verifAssert(df.Size() == end, "C11.reopened-size")
		verifAssert(verifFSLen(GetFileName(dir, 0, DataFileSuffix)) == end || ioType2 == fio.MemoryMap, "C11.reopened-physical-size")
		readAll(df, "C11.reopened")
		vl := verifInt("vlen2")
		verifAssume(vl >= 0)
		verifAssume(vl <= maxLen)
		k2, v2 := verifBytes("k2", 1), verifBytes("v2", vl)
		p, err := df.WriteLogRecord(&LogRecord{Key: k2, Value: v2, Type: LogRecordNormal}, hdr)
		verifAssert(err == nil, "C11.append-after-reopen")
		padded := end
		if end%blockSize+chunkHeaderSize >= blockSize && end%blockSize != 0 {
			padded = (end/blockSize + 1) * blockSize
			verifReach("reopened-with-padded-tail")
		}
		verifAssert(int64(p.BlockID)*blockSize+int64(p.Offset) == padded, "C11.append-after-reopen-position")
		verifAssert(padded+int64(p.Size) == df.Size(), "C11.append-after-reopen-size")
		verifAssert(df.Size() == verifFSLen(GetFileName(dir, 0, DataFileSuffix)) || ioType2 == fio.MemoryMap, "C11.reopened-logical==physical")
		keys, vals, poss = append(keys, k2), append(vals, v2), append(poss, p)
		readAll(df, "C11.appended")
		verifReach("reopened")
	}
	if verifParam("resumeread") == 1 {
		// a sequential reader that has consumed everything is RESUMED after another append (readers that follow a
		// growing file): it must return the new record at the position the writer reported
		r := df.NewReader()
		for range poss {
			_, _, err := r.NextLogRecord()
			verifAssert(err == nil, "C11.resume-read")
		}
		_, _, err := r.NextLogRecord()
		verifAssert(err == io.EOF, "C11.resume-eof")
		vl := verifInt("vlen4")
		verifAssume(vl >= 0)
		verifAssume(vl <= maxLen)
		k4, v4 := verifBytes("k4", 1), verifBytes("v4", vl)
		p4, err := df.WriteLogRecord(&LogRecord{Key: k4, Value: v4, Type: LogRecordNormal}, hdr)
		verifAssert(err == nil, "C11.resume-append")
		rec, pos, err := r.NextLogRecord()
		verifAssert(err == nil, "C11.resumed-seq-err")
		verifAssert(*pos == *p4, "C11.resumed-seq-pos")
		verifAssert(len(rec.Value) == vl && verifBytesEq(rec.Value, v4), "C11.resumed-seq-bytes")
		keys, vals, poss = append(keys, k4), append(vals, v4), append(poss, p4)
		verifReach("reader-resumed-after-append")
	}
	if verifParam("truncread") == 1 && len(poss) >= 2 {
		// a sequential reader that is kept while the file is cut back to its position and appended to again
		// (what recovery does with a torn tail) must see the NEW bytes, at the positions the writer reports
		r := df.NewReader()
		_, _, err := r.NextLogRecord()
		verifAssert(err == nil, "C11.truncread-first")
		_, _, err = r.NextLogRecord() // the reader has seen (and may have buffered) the record that is cut away next
		verifAssert(err == nil, "C11.truncread-second")
		cut := int64(poss[1].BlockID)*blockSize + int64(poss[1].Offset)
		r2 := df.NewReader()
		_, _, _ = r2.NextLogRecord()
		verifAssert(r2.Position() == cut || (cut%blockSize == 0), "C11.truncread-position")
		verifAssert(df.Truncate(cut) == nil, "C11.truncread-truncate")
		vl := verifInt("vlen3")
		verifAssume(vl >= 0)
		verifAssume(vl <= maxLen)
		k3, v3 := verifBytes("k3", 1), verifBytes("v3", vl)
		p3, err := df.WriteLogRecord(&LogRecord{Key: k3, Value: v3, Type: LogRecordNormal}, hdr)
		verifAssert(err == nil, "C11.truncread-append")
		// r2 stood exactly at the cut: its next record is the new one
		rec, pos, err := r2.NextLogRecord()
		verifAssert(err == nil, "C11.truncread-seq-err")
		verifAssert(*pos == *p3, "C11.truncread-seq-pos")
		verifAssert(len(rec.Key) == 1 && len(rec.Value) == vl, "C11.truncread-seq-len")
		verifAssert(verifAnd(verifBytesEq(rec.Key, k3), verifBytesEq(rec.Value, v3)), "C11.truncread-seq-bytes")
		got, err := df.ReadRecordValue(p3)
		verifAssert(err == nil && len(got) == vl, "C11.truncread-random")
		verifAssert(verifBytesEq(got, v3), "C11.truncread-random-bytes")
		verifReach("reader-across-truncate")
	}
	verifReach("done")
	if verifParam("witness") == 1 {
		verifAssert(false, "witness")
	}
}
