package datafile

import (
	"io"
	"os"

	"github.com/XiXi-2024/xixi-kv/fio"
)

// verifHarnessC11Scaled: N records of solver-chosen lengths (all symbolic content) are appended to a data
// file at a scaled block size, then read back randomly (by position) and sequentially.
// Params: n (records), maxlen (max value length), io (0 standard, 1 mmap), batch (1: staged multi-record flush).
func verifHarnessC11Scaled() {
	n := verifParam("n")
	maxLen := verifParam("maxlen")
	ioType := fio.FileIOType(verifParam("io"))
	staged := verifParam("batch") == 1
	dir := verifDir("c11")
	if err := os.MkdirAll(dir, 0755); err != nil {
		verifAssert(false, "C11.setup")
	}
	df, err := OpenFile(dir, 0, DataFileSuffix, ioType)
	verifAssert(err == nil, "C11.open")
	hdr := make([]byte, MaxLogRecordHeaderSize)

	keys := make([][]byte, n)
	vals := make([][]byte, n)
	poss := make([]*DataPos, n)
	for i := 0; i < n; i++ {
		// lengths are symbolic: the solver enumerates every feasible value at the allocation site
		kl := verifInt("klen")
		verifAssume(kl >= 1)
		verifAssume(kl <= 2)
		vl := verifInt("vlen")
		verifAssume(vl >= 0)
		verifAssume(vl <= maxLen)
		keys[i] = verifBytes("k", kl)
		vals[i] = verifBytes("v", vl)
		rec := &LogRecord{Key: keys[i], Value: vals[i], Type: LogRecordNormal}
		if staged {
			df.WriteStagedLogRecord(rec, hdr)
		} else {
			p, err := df.WriteLogRecord(rec, hdr)
			verifAssert(err == nil, "C11.write")
			poss[i] = p
		}
	}
	if staged {
		ps, err := df.FlushStaged()
		verifAssert(err == nil, "C11.flush")
		verifAssert(len(ps) == n, "C11.flush-count")
		copy(poss, ps)
	}
	// logical size equals physical size
	verifAssert(df.Size() == verifFSLen(GetFileName(dir, 0, DataFileSuffix)) || ioType == fio.MemoryMap, "C11.logical==physical")
	if ioType == fio.MemoryMap {
		sz, _ := df.ReadWriter.Size()
		verifAssert(df.Size() == sz, "C11.logical==virtual")
	}
	// positions: consecutive, sizes add up
	for i := 0; i < n; i++ {
		abs := int64(poss[i].BlockID)*blockSize + int64(poss[i].Offset)
		if i+1 < n {
			nxt := int64(poss[i+1].BlockID)*blockSize + int64(poss[i+1].Offset)
			// the next record starts at the end of this one, or at the next block start after tail padding
			end := abs + int64(poss[i].Size)
			padded := end
			if end%blockSize+chunkHeaderSize >= blockSize && end%blockSize != 0 {
				padded = (end/blockSize + 1) * blockSize
			}
			verifAssert(nxt == padded, "C11.size-consecutive")
			if padded != end {
				verifReach("padded-tail")
			}
		} else {
			verifAssert(abs+int64(poss[i].Size) == df.Size(), "C11.size-last")
		}
		if poss[i].Size > blockSize {
			verifReach("multi-chunk")
		}
	}
	// random reads
	for i := 0; i < n; i++ {
		got, err := df.ReadRecordValue(poss[i])
		verifAssert(err == nil, "C11.random-err")
		verifAssert(len(got) == len(vals[i]), "C11.random-len")
		verifAssert(verifBytesEq(got, vals[i]), "C11.random-bytes")
	}
	// sequential reads
	r := df.NewReader()
	for i := 0; i < n; i++ {
		rec, pos, err := r.NextLogRecord()
		verifAssert(err == nil, "C11.seq-err")
		verifAssert(*pos == *poss[i], "C11.seq-pos")
		verifAssert(len(rec.Key) == len(keys[i]) && len(rec.Value) == len(vals[i]), "C11.seq-len")
		verifAssert(verifAnd(verifBytesEq(rec.Key, keys[i]), verifBytesEq(rec.Value, vals[i])), "C11.seq-bytes")
	}
	_, _, err = r.NextLogRecord()
	verifAssert(err == io.EOF, "C11.seq-eof")
	verifReach("done")
	if verifParam("witness") == 1 {
		verifAssert(false, "witness")
	}
}
