package datafile

import (
	"io"
	"os"

	"github.com/XiXi-2024/xixi-kv/fio"
)

// verifHarnessC11Real: the REAL 32 KiB geometry. Two or three records whose lengths are symbolic and constrained
// to the classes in which the framing arithmetic changes behaviour: the encoded record ends within `win` bytes
// of a block boundary (either side), for records of up to `blocks` blocks. The solver enumerates every feasible
// length; content is a concrete pattern except for a few symbolic bytes at both ends (a 32 KiB symbolic payload
// adds nothing to the arithmetic and would only inflate the terms).
func verifHarnessC11Real() {
	n := verifParam("n")
	blocks := verifParam("blocks")
	win := verifParam("win")
	ioType := fio.FileIOType(verifParam("io"))
	staged := verifParam("batch") == 1
	dir := verifDir("c11r")
	os.MkdirAll(dir, 0755)
	df, err := OpenFile(dir, 0, DataFileSuffix, ioType)
	verifAssert(err == nil, "C11.open-err")
	hdr := make([]byte, MaxLogRecordHeaderSize)
	vals := make([][]byte, n)
	keys := make([][]byte, n)
	poss := make([]*DataPos, n)
	for i := 0; i < n; i++ {
		vl := verifInt("vlen")
		verifAssume(vl >= 0)
		verifAssume(vl <= blocks*blockSize)
		if i < n-1 || verifParam("lastsmall") == 0 {
			// the file position after this record lies within win bytes of a block boundary
			end := (int(df.Size()) + vl + 12) % blockSize // 12 ~ header bytes; the window absorbs the varint slack
			verifAssume(end <= win || end >= blockSize-win)
		} else {
			verifAssume(vl <= 3)
		}
		v := make([]byte, vl)
		for j := range v {
			v[j] = byte(j*31 + i)
		}
		if vl > 0 {
			v[0] = verifU8("first")
			v[vl-1] = verifU8("last")
		}
		keys[i] = verifBytes("k", 1)
		vals[i] = v
		rec := &LogRecord{Key: keys[i], Value: v}
		if staged {
			df.WriteStagedLogRecord(rec, hdr)
			// positions come from FlushStaged below; keep df.Size() estimate moving by writing nothing yet
		} else {
			p, err := df.WriteLogRecord(rec, hdr)
			verifAssert(err == nil, "C11.write-err")
			poss[i] = p
			if p.Size > blockSize {
				verifReach("multi-chunk")
			}
		}
	}
	if staged {
		ps, err := df.FlushStaged()
		verifAssert(err == nil && len(ps) == n, "C11.flush")
		copy(poss, ps)
	}
	if ioType == fio.StandardFIO {
		verifAssert(df.Size() == verifFSLen(GetFileName(dir, 0, DataFileSuffix)), "C11.logical==physical")
	}
	for i := 0; i < n; i++ {
		abs := int64(poss[i].BlockID)*blockSize + int64(poss[i].Offset)
		end := abs + int64(poss[i].Size)
		if i+1 < n {
			nxt := int64(poss[i+1].BlockID)*blockSize + int64(poss[i+1].Offset)
			padded := end
			if end%blockSize+chunkHeaderSize >= blockSize && end%blockSize != 0 {
				padded = (end/blockSize + 1) * blockSize
				verifReach("padded-tail")
			}
			verifAssert(nxt == padded, "C11.size-consecutive")
		} else {
			verifAssert(end == df.Size(), "C11.size-last")
		}
		got, err := df.ReadRecordValue(poss[i])
		verifAssert(err == nil, "C11.random-err")
		verifAssert(len(got) == len(vals[i]), "C11.random-len")
		verifAssert(verifBytesEq(got, vals[i]), "C11.random-bytes")
	}
	r := df.NewReader()
	for i := 0; i < n; i++ {
		rec, pos, err := r.NextLogRecord()
		verifAssert(err == nil, "C11.seq-err")
		verifAssert(*pos == *poss[i], "C11.seq-pos")
		verifAssert(len(rec.Value) == len(vals[i]) && len(rec.Key) == 1, "C11.seq-len")
		verifAssert(verifAnd(verifBytesEq(rec.Key, keys[i]), verifBytesEq(rec.Value, vals[i])), "C11.seq-bytes")
	}
	_, _, err = r.NextLogRecord()
	verifAssert(err == io.EOF, "C11.seq-eof")
	verifReach("done")
}
