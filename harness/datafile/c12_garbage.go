package datafile

import (
	"io"
	"os"

	"github.com/XiXi-2024/xixi-kv/fio"
)

// verifHarnessC12Garbage: memory safety before acceptance. A file of ARBITRARY symbolic bytes and symbolic
// size is read through every read path; no input may reach a panic (each run-time check of the real code is
// a solver query here).
func verifHarnessC12Garbage() {
	dir := verifDir("g")
	os.MkdirAll(dir, 0755)
	n := verifInt("size")
	verifAssume(n >= 0)
	verifAssume(n <= verifParam("maxsize"))
	name := GetFileName(dir, 0, DataFileSuffix)
	verifFSWrite(name, verifBytes("garbage", n))
	df, err := OpenFile(dir, 0, DataFileSuffix, fio.FileIOType(verifParam("io")))
	verifAssert(err == nil, "C12.open-err")
	// sequential reader
	r := df.NewReader()
	for i := 0; i < 3; i++ {
		_, _, err := r.NextLogRecord()
		if err != nil {
			if err != io.EOF {
				verifReach("seq-error")
			}
			break
		}
		verifReach("seq-accepted")
	}
	// hint-record reader
	hr := df.NewReader()
	_, _, _ = hr.NextHintRecord()
	// random read at an arbitrary position
	blk := uint32(verifChoice("blk", 3))
	off := verifU32("off")
	verifAssume(off < blockSize)
	_, rerr := df.ReadRecordValue(&DataPos{Fid: 0, BlockID: blk, Offset: off, Size: 0})
	if rerr != nil {
		verifReach("random-error")
	}
	// merge marker reader
	_ = df.ReadMergeFinRecord()
	verifReach("done")
	if verifParam("witness") == 1 {
		verifAssert(false, "witness")
	}
}
