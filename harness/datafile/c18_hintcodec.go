package datafile

import "github.com/valyala/bytebufferpool"

// verifHarnessC18Codec: Encode/DecodeHintRecord round-trip for ALL 32-bit field values (every varint length)
// and symbolic keys of 0..3 bytes, including keys whose bytes look like varint continuation bytes.
func verifHarnessC18Codec() {
	pos := &DataPos{Fid: verifU32("fid"), BlockID: verifU32("blk"), Offset: verifU32("off"), Size: verifU32("size")}
	kl := verifChoice("klen", 4)
	key := verifBytes("key", kl)
	hintPos := make([]byte, MaxLogRecordPosSize)
	buf := bytebufferpool.Get()
	EncodeHintRecord(key, pos, hintPos, buf)
	k2, p2 := DecodeHintRecord(buf.B)
	verifAssert(len(k2) == len(key), "C18.codec-keylen")
	verifAssert(verifBytesEq(k2, key), "C18.codec-key")
	verifAssert(p2.Fid == pos.Fid, "C18.codec-fid")
	verifAssert(p2.BlockID == pos.BlockID, "C18.codec-block")
	verifAssert(p2.Offset == pos.Offset, "C18.codec-offset")
	verifAssert(p2.Size == pos.Size, "C18.codec-size")
	verifReach("done")
	if verifParam("witness") == 1 {
		verifAssert(false, "witness")
	}
}

// verifHarnessC18LogCodec: Encode/DecodeLogRecord(+Value) round-trip with symbolic type, batch id (all 64 bits)
// and content; key and value lengths up to 3.
func verifHarnessC18LogCodec() {
	rec := &LogRecord{Type: verifU8("type"), BatchID: verifU64("batch"), Key: verifBytes("key", 1+verifChoice("klen", 3)), Value: verifBytes("val", verifChoice("vlen", 4))}
	hdr := make([]byte, MaxLogRecordHeaderSize)
	buf := bytebufferpool.Get()
	EncodeLogRecord(rec, hdr, buf)
	r2 := DecodeLogRecord(buf.B)
	verifAssert(r2.Type == rec.Type, "C18.log-type")
	verifAssert(r2.BatchID == rec.BatchID, "C18.log-batchid")
	verifAssert(len(r2.Key) == len(rec.Key) && len(r2.Value) == len(rec.Value), "C18.log-lens")
	verifAssert(verifAnd(verifBytesEq(r2.Key, rec.Key), verifBytesEq(r2.Value, rec.Value)), "C18.log-bytes")
	v := DecodeLogRecordValue(buf.B)
	verifAssert(len(v) == len(rec.Value), "C18.logvalue-len")
	verifAssert(verifBytesEq(v, rec.Value), "C18.logvalue-bytes")
	verifReach("done")
}

// verifHarnessC18LogCodecWidths: the record codec at the lengths where the uvarint length fields change width
// (127/128 and 16383/16384 bytes) for key and value; content concrete except the first and last byte of each.
func verifHarnessC18LogCodecWidths() {
	lens := []int{0, 1, 127, 128, 129, 16383, 16384, 16385}
	klens := []int{1, 127, 128, 16384}
	kl := klens[verifChoice("klen", len(klens))]
	vl := lens[verifChoice("vlen", len(lens))]
	key := make([]byte, kl)
	val := make([]byte, vl)
	key[0], key[kl-1] = verifU8("k0"), verifU8("k1")
	if vl > 0 {
		val[0] = verifU8("v0")
		val[vl-1] = verifU8("v1")
	}
	rec := &LogRecord{Type: LogRecordNormal, BatchID: verifU64("batch"), Key: key, Value: val}
	hdr := make([]byte, MaxLogRecordHeaderSize)
	buf := bytebufferpool.Get()
	EncodeLogRecord(rec, hdr, buf)
	r2 := DecodeLogRecord(buf.B)
	verifAssert(r2.BatchID == rec.BatchID, "C18.widths-batchid")
	verifAssert(len(r2.Key) == kl && len(r2.Value) == vl, "C18.widths-lens")
	verifAssert(r2.Key[0] == key[0] && r2.Key[kl-1] == key[kl-1], "C18.widths-key-bytes")
	v := DecodeLogRecordValue(buf.B)
	verifAssert(len(v) == vl, "C18.widths-value-len")
	if vl > 0 {
		verifAssert(v[0] == val[0] && v[vl-1] == val[vl-1] && r2.Value[0] == val[0] && r2.Value[vl-1] == val[vl-1], "C18.widths-value-bytes")
	}
	verifReach("done")
}
