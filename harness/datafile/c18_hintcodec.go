package datafile

import "github.com/valyala/bytebufferpool"

// verifHarnessC18Codec: Encode/DecodeHintRecord round-trip for ALL 32-bit field values (every varint length)
// and symbolic keys of 0..3 bytes, including keys whose bytes look like varint continuation bytes.
func verifHarnessC18Codec() {
	pos := &DataPos{Fid: verifU32("fid"), BlockID: verifU32("blk"), Offset: verifU32("off"), Size: verifU32("size")}
	kl := verifChoice("klen", 4)
	key := verifBytes("key", kl)
	hintPos := make([]byte, MaxLogRecordPosSize)
	buf := bytebufferpool.Get()
	EncodeHintRecord(key, pos, hintPos, buf)
	k2, p2 := DecodeHintRecord(buf.B)
	verifAssert(len(k2) == len(key), "C18.codec-keylen")
	verifAssert(verifBytesEq(k2, key), "C18.codec-key")
	verifAssert(p2.Fid == pos.Fid, "C18.codec-fid")
	verifAssert(p2.BlockID == pos.BlockID, "C18.codec-block")
	verifAssert(p2.Offset == pos.Offset, "C18.codec-offset")
	verifAssert(p2.Size == pos.Size, "C18.codec-size")
	verifReach("done")
	if verifParam("witness") == 1 {
		verifAssert(false, "witness")
	}
}

// verifHarnessC18LogCodec: Encode/DecodeLogRecord(+Value) round-trip with symbolic type, batch id (all 64 bits)
// and content; key and value lengths up to 3.
func verifHarnessC18LogCodec() {
	rec := &LogRecord{Type: verifU8("type"), BatchID: verifU64("batch"), Key: verifBytes("key", 1+verifChoice("klen", 3)), Value: verifBytes("val", verifChoice("vlen", 4))}
	hdr := make([]byte, MaxLogRecordHeaderSize)
	buf := bytebufferpool.Get()
	EncodeLogRecord(rec, hdr, buf)
	r2 := DecodeLogRecord(buf.B)
	verifAssert(r2.Type == rec.Type, "C18.log-type")
	verifAssert(r2.BatchID == rec.BatchID, "C18.log-batchid")
	verifAssert(len(r2.Key) == len(rec.Key) && len(r2.Value) == len(rec.Value), "C18.log-lens")
	verifAssert(verifAnd(verifBytesEq(r2.Key, rec.Key), verifBytesEq(r2.Value, rec.Value)), "C18.log-bytes")
	v := DecodeLogRecordValue(buf.B)
	verifAssert(len(v) == len(rec.Value), "C18.logvalue-len")
	verifAssert(verifBytesEq(v, rec.Value), "C18.logvalue-bytes")
	verifReach("done")
}
