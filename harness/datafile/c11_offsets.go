package datafile

import "io"

// vFakeRW records the absolute offsets the data file asks its back-end for; it holds no data (reads return zeros).
type vFakeRW struct {
	size  int64
	offs  []int64
	lens  []int
	reads int
}

func (f *vFakeRW) Read(b []byte, off int64) (int, error) {
	f.reads++
	if len(f.offs) < 4 {
		f.offs = append(f.offs, off)
		f.lens = append(f.lens, len(b))
	}
	if off >= f.size {
		return 0, io.EOF
	}
	for i := range b {
		b[i] = 0
	}
	return len(b), nil
}
func (f *vFakeRW) Write(b []byte) (int, error) { f.size += int64(len(b)); return len(b), nil }
func (f *vFakeRW) Sync() error                 { return nil }
func (f *vFakeRW) Close() error                { return nil }
func (f *vFakeRW) Size() (int64, error)        { return f.size, nil }
func (f *vFakeRW) Truncate(size int64) error   { f.size = size; return nil }

// verifHarnessC11Offsets: position arithmetic for EVERY 32-bit block id at the real geometry, far beyond what a
// file on disk can be made to hold in a test: a data file with an arbitrary (symbolic) last block and a positional
// read / a sequential read at an arbitrary (symbolic) block id. The back-end must be asked for exactly
// blockID*blockSize in 64-bit arithmetic (no 32-bit wrap beyond 4 GiB), with a length inside the block.
func verifHarnessC11Offsets() {
	// block ids: all 32-bit values (symbolic); in-block sizes and offsets: boundary classes (they index slices)
	last := verifU32("lastblock")
	lastSize := []uint32{1, 7, 8, blockSize - 7, blockSize}[verifChoice("lastsize", 5)]
	blk := verifU32("block")
	verifAssume(blk <= last)
	off := []uint32{0, 1, 6, blockSize - 8}[verifChoice("off", 4)]
	rw := &vFakeRW{size: int64(last)*blockSize + int64(lastSize)}
	df := &DataFile{ID: 0, ReadWriter: rw, lastBlockID: last, lastBlockSize: lastSize, headerBuf: make([]byte, chunkHeaderSize)}
	verifAssert(df.Size() == rw.size, "C11.offsets-logical-size")
	if verifChoice("mode", 2) == 0 {
		_, _ = df.ReadRecordValue(&DataPos{Fid: 0, BlockID: blk, Offset: off, Size: 8})
		if rw.reads > 0 {
			verifAssert(rw.offs[0] == int64(blk)*blockSize, "C11.offsets-positional-read-offset")
			verifAssert(int64(rw.lens[0]) <= blockSize && rw.offs[0]+int64(rw.lens[0]) <= rw.size, "C11.offsets-positional-read-length")
			verifReach("positional-offset-checked")
		}
	} else {
		r := df.NewReader()
		r.blockID, r.offset = blk, off
		_, _, _ = r.NextLogRecord()
		if rw.reads > 0 {
			verifAssert(rw.offs[0] == int64(blk)*blockSize, "C11.offsets-sequential-read-offset")
			verifAssert(int64(rw.lens[0]) <= blockSize && rw.offs[0]+int64(rw.lens[0]) <= rw.size, "C11.offsets-sequential-read-length")
			verifReach("sequential-offset-checked")
		}
		verifAssert(r.Position() >= int64(blk)*blockSize, "C11.offsets-position-wrapped")
	}
	verifReach("done")
}
