package datafile

import (
	"os"

	"github.com/XiXi-2024/xixi-kv/fio"
)

// verifHarnessC11BothIO: the same records written through FileIO and through MMap (in one path, in lock step)
// leave byte-identical files of identical size after Close, and report identical positions.
func verifHarnessC11BothIO() {
	n := verifParam("n")
	maxLen := verifParam("maxlen")
	da, db := verifDir("std"), verifDir("mmap")
	os.MkdirAll(da, 0755)
	os.MkdirAll(db, 0755)
	fa, err := OpenFile(da, 0, DataFileSuffix, fio.StandardFIO)
	verifAssert(err == nil, "C11.open-std")
	fb, err := OpenFile(db, 0, DataFileSuffix, fio.MemoryMap)
	verifAssert(err == nil, "C11.open-mmap")
	ha, hb := make([]byte, MaxLogRecordHeaderSize), make([]byte, MaxLogRecordHeaderSize)
	for i := 0; i < n; i++ {
		vl := verifInt("vlen")
		verifAssume(vl >= 0)
		verifAssume(vl <= maxLen)
		k := verifBytes("k", 1)
		v := verifBytes("v", vl)
		typ := verifU8("type")
		pa, ea := fa.WriteLogRecord(&LogRecord{Key: k, Value: v, Type: typ}, ha)
		pb, eb := fb.WriteLogRecord(&LogRecord{Key: k, Value: v, Type: typ}, hb)
		verifAssert(ea == nil && eb == nil, "C11.bothio-write-err")
		verifAssert(*pa == *pb, "C11.bothio-position-differs")
	}
	verifAssert(fa.Size() == fb.Size(), "C11.bothio-logical-size-differs")
	verifAssert(fa.Close() == nil && fb.Close() == nil, "C11.bothio-close-err")
	ba, bb := verifFSBytes(GetFileName(da, 0, DataFileSuffix)), verifFSBytes(GetFileName(db, 0, DataFileSuffix))
	verifAssert(len(ba) == len(bb), "C11.bothio-file-size-differs")
	verifAssert(verifBytesEq(ba, bb), "C11.bothio-file-bytes-differ")
	verifReach("both-io-compared")
}
