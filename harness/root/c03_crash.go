package xixi_kv

import (
	"strconv"

	"github.com/XiXi-2024/xixi-kv/datafile"
	"github.com/XiXi-2024/xixi-kv/fio"
)

// vDump is the observable mapping restricted to the pool keys.
type vDumpT struct {
	found []bool
	vals  [][]byte
	errs  []error
}

func vDump(db *DB, kp *vPool) *vDumpT {
	d := &vDumpT{found: make([]bool, len(kp.keys)), vals: make([][]byte, len(kp.keys)), errs: make([]error, len(kp.keys))}
	for i := range kp.keys {
		v, err := db.Get(kp.keys[i])
		d.found[i] = err == nil
		d.vals[i] = v
		if err != nil && err != ErrKeyNotFound {
			d.errs[i] = err
		}
	}
	return d
}

// vMatches returns the (possibly symbolic) truth of "dump equals model".
func vMatches(d *vDumpT, m *vModel) bool {
	ok := true
	for i := range d.found {
		if d.found[i] != m.has[i] {
			return false
		}
		if d.found[i] {
			if len(d.vals[i]) != len(m.val[i]) {
				return false
			}
			ok = verifAnd(ok, verifBytesEq(d.vals[i], m.val[i]))
		}
	}
	return ok
}

// vPlanned is one planned mutation: the plan (choices, values, model sequence) is drawn before anything is
// executed, so a native replay can rebuild it without re-running the crashed workload.
type vPlanned struct {
	kind  int
	ki    int
	v     []byte
	bkis  []int
	bdels []bool
	bvs   [][]byte
	after *vModel // model after this op (nil for Sync)
}

func vPlan(K int, kp *vPool, ops []int) []*vPlanned {
	cur := newVModel(len(kp.keys))
	var plan []*vPlanned
	for step := 0; step < K; step++ {
		o := &vPlanned{kind: ops[verifChoice("op", len(ops))]}
		nxt := cur.clone()
		switch o.kind {
		case vOpPut:
			o.ki = verifChoice("ki", kp.hot())
			o.v = verifValue("v")
			nxt.put(o.ki, o.v)
			o.after = nxt
		case vOpDelete:
			o.ki = verifChoice("ki", kp.hot())
			nxt.del(o.ki)
			o.after = nxt
		case vOpBatch:
			bmax := verifParam("bmax")
			if bmax == 0 {
				bmax = 2
			}
			n := 1 + verifChoice("bops", bmax)
			for i := 0; i < n; i++ {
				ki := verifChoice("bki", kp.hot())
				del := verifChoice("bop", 2) == 1
				var v []byte
				if del {
					nxt.del(ki)
				} else {
					v = verifValue("bv")
					nxt.put(ki, v)
				}
				o.bkis, o.bdels, o.bvs = append(o.bkis, ki), append(o.bdels, del), append(o.bvs, v)
			}
			o.after = nxt
		}
		if o.after != nil {
			cur = o.after
		}
		plan = append(plan, o)
	}
	return plan
}

// vExec executes one planned op; returns the (possibly reopened) database.
func vExec(db *DB, opts Options, kp *vPool, o *vPlanned, id string) *DB {
	switch o.kind {
	case vOpMerge:
		if verifParam("permute") == 1 {
			verifPermuteMaps(true)
		}
		merr := db.Merge()
		verifPermuteMaps(false)
		if merr == nil {
			verifReach("merge-finished")
		}
	case vOpRestart:
		verifAssert(db.Close() == nil, id+".close-err")
		ndb, err := Open(opts)
		if err != nil {
			verifNote("restart-err", err)
		}
		verifAssert(err == nil, id+".restart-err")
		db = ndb
		verifReach("restarted")
	case vOpPut:
		verifAssert(db.Put(kp.keys[o.ki], o.v) == nil, id+".put-err")
	case vOpDelete:
		verifAssert(db.Delete(kp.keys[o.ki]) == nil, id+".delete-err")
	case vOpSync:
		verifAssert(db.Sync() == nil, id+".sync-err")
	case vOpBatch:
		b := db.NewBatch(BatchOptions{Sync: verifParam("bsync") == 1})
		for i := range o.bkis {
			if o.bdels[i] {
				verifAssert(b.Delete(kp.keys[o.bkis[i]]) == nil, id+".bdelete-err")
			} else {
				verifAssert(b.Put(kp.keys[o.bkis[i]], o.bvs[i]) == nil, id+".bput-err")
			}
		}
		verifAssert(b.Commit() == nil, id+".commit-err")
		verifReach("batch")
		if len(db.olderFiles) > 0 {
			verifReach("batch-with-rotation")
		}
		// once Commit has returned the whole batch is visible live
		d := vDump(db, kp)
		verifAssert(vMatches(d, o.after), id+".batch-not-visible-after-commit")
	}
	return db
}

func vPropID() string {
	switch verifParam("prop") {
	case 4:
		return "C04"
	case 7:
		return "C07"
	case 17:
		return "C17"
	}
	return "C03"
}

// verifHarnessCrash (C03, C04, C07): a planned history runs with a crash armed before every file-system
// operation (including those of Merge and of the adoption inside a restart's Open); process death or power loss
// (every unsynced tail cut to a solver-chosen length); optionally a second crash during the recovering Open.
// The final recovery must succeed and expose the state after op j, with j >= the last mutation that was
// durable (power loss) or the last acknowledged one (process death), and j <= the one in flight.
func verifHarnessCrash() {
	id := vPropID()
	K := verifParam("k")
	kp := verifKeyPool(verifParam("pool"), verifParam("klen"))
	opts := verifOptions(verifDir("db"), "")
	ops := vOpsFromMask(verifParam("ops"))
	var plan []*vPlanned
	if pre := verifParam("preput"); pre > 0 {
		plan = vPlan(pre, kp, []int{vOpPut})
	}
	body := vPlan(K, kp, ops)
	// the model sequence of the body continues from the pre-puts
	if len(plan) > 0 {
		base := plan[len(plan)-1].after
		for _, o := range body {
			if o.after != nil {
				m := base.clone()
				vReplayOnto(m, o)
				o.after = m
				base = m
			}
		}
	}
	if verifParam("premerge") == 1 {
		// an earlier merge generation: the pre-puts are merged and adopted (leaving merged files and a hint
		// file in the data directory) before the history under test
		plan = append(plan, &vPlanned{kind: vOpMerge}, &vPlanned{kind: vOpRestart})
	}
	plan = append(plan, body...)
	if tail := verifParam("tailops"); tail != 0 {
		// fixed suffix, e.g. Merge then Restart (adoption) for C07
		for _, k := range vOpsFromMask(tail) {
			plan = append(plan, &vPlanned{kind: k})
		}
	}
	wantPowerLoss := verifParam("powerloss") == 1 && verifChoice("mode", 2) == 1
	// ---- phase 1 (engine only): run the plan until the crash ----
	done, started, jmin := 0, 0, 0
	if !verifNative() {
		db, err := Open(opts)
		verifAssert(err == nil, id+".open-err")
		crashed := verifCrashable(func() {
			verifCrashArm(true)
			for i, o := range plan {
				verifSetTag("op" + strconv.Itoa(i))
				started = i + 1
				db = vExec(db, opts, kp, o, id)
				done = i + 1
			}
			verifCrashArm(false)
		})
		if crashed {
			verifReach("crashed-mid-workload")
			if started > 0 && plan[started-1].kind == vOpMerge {
				verifReach("crashed-in-merge")
			}
			if started > 0 && plan[started-1].kind == vOpRestart {
				verifReach("crashed-in-restart")
			}
		}
		jmin = done
		if wantPowerLoss {
			jmin = 0
			for i := 0; i < done; i++ {
				tag := "op" + strconv.Itoa(i)
				if plan[i].after != nil && verifFSWrittenTag(tag) > 0 && verifFSUnsynced(opts.DirPath, tag) == 0 {
					jmin = i + 1
				}
			}
			// C04: a committed Sync batch must survive a power failure whatever was flushed
			if verifParam("bsync") == 1 {
				for i := 0; i < done; i++ {
					// (a batch that wrote nothing - e.g. only deletes of absent keys - has nothing to make
					// durable and says nothing about EARLIER unsynced writes)
					if plan[i].kind == vOpBatch && verifFSWrittenTag("op"+strconv.Itoa(i)) > 0 {
						jmin = i + 1
						verifReach("sync-batch-required-durable")
					}
				}
			}
			verifReach("power-loss")
			if jmin < done {
				verifReach("unsynced-acked")
			}
		}
		verifCrashNow(wantPowerLoss)
		if verifParam("crash2") == 1 {
			// a second crash (process death) during the recovering Open, then the final recovery below
			crashed2 := verifCrashable(func() {
				verifCrashArm(true)
				rdb, err := Open(opts)
				if err != nil {
					verifNote("recovery1-err", err)
				}
				verifAssert(err == nil, id+".first-recovery-open-err")
				_ = rdb
				verifCrashArm(false)
			})
			if crashed2 {
				verifReach("crashed-during-recovery")
			}
			verifCrashNow(false)
		}
	}
	done = verifCheckpointInt("done", done)
	started = verifCheckpointInt("started", started)
	jmin = verifCheckpointInt("jmin", jmin)
	torn := verifCheckpointInt("torn", verifFSTornFiles())
	// ---- phase 2 (engine and native replay): recover and compare ----
	empty := newVModel(len(kp.keys))
	stateAfter := func(n int) *vModel {
		st := empty
		for i := 0; i < n; i++ {
			if plan[i].after != nil {
				st = plan[i].after
			}
		}
		return st
	}
	var cands []*vModel
	for n := jmin; n <= started; n++ {
		cands = append(cands, stateAfter(n))
	}
	if r := verifParam("r_io"); r != 0 {
		// the recovering process uses the OTHER back-end (and keeps it from here on)
		opts.FileIOType = fio.FileIOType(r - 1)
		verifReach("recovered-with-other-backend")
	}
	db2, err := Open(opts)
	if err != nil {
		verifNote("recovery-err", err)
	}
	if torn > 0 {
		verifReach("torn-tail")
	}
	verifAssert(err == nil, id+".recovery-open-err")
	d := vDump(db2, kp)
	for i := range d.errs {
		verifAssert(d.errs[i] == nil, id+".recovered-get-err")
	}
	match := false
	for _, m := range cands {
		match = verifOr(match, vMatches(d, m))
	}
	verifAssert(match, id+".not-a-prefix")
	verifAssert(db2.Stat().KeyNum == len(db2.ListKeys()), id+".keynum-vs-listkeys")
	if verifParam("statcheck") == 1 {
		// the space accounting rebuilt by recovery is exact too (C17's oracle on the recovered database)
		rm := newVModel(len(kp.keys))
		for i := range d.found {
			if d.found[i] {
				rm.put(i, d.vals[i])
			}
		}
		vCheckStat(db2, opts, rm, id+".recovered-stat")
		verifReach("recovered-stat-checked")
	}
	if verifParam("after") == 1 {
		// the recovered database keeps working: one more put (or a committed batch), clean restart, same mapping
		v := []byte{9}
		if verifParam("afterbatch") == 1 {
			// a later batch must not revive anything of an interrupted earlier one
			b := db2.NewBatch(DefaultBatchOptions)
			verifAssert(b.Put(kp.keys[len(kp.keys)-1], v) == nil, id+".bput-after-recovery-err")
			verifAssert(b.Commit() == nil, id+".commit-after-recovery-err")
			verifReach("batch-after-recovery")
		} else if verifParam("aftermerge") == 1 {
			// an interrupted merge is followed by a delete and ANOTHER merge: leftovers of the first must not leak in
			verifAssert(db2.Delete(kp.keys[0]) == nil, id+".delete-after-recovery-err")
			if db2.Merge() == nil {
				verifReach("merge-after-recovery")
			}
			_, gerr := db2.Get(kp.keys[0])
			verifAssert(gerr == ErrKeyNotFound, id+".deleted-key-visible-after-second-merge")
		} else {
			if verifParam("afterval") == 1 {
				v = verifValue("av") // any length class of the job: the write may end before, at or beyond what recovery cut away
			}
			verifAssert(db2.Put(kp.keys[0], v) == nil, id+".put-after-recovery-err")
		}
		d1 := vDump(db2, kp)
		if verifParam("aftercrash") == 1 {
			// the recovered database wrote on and now dies as well (process death: every acknowledged write
			// survives, nothing is closed or truncated) - the SECOND recovery must cope with what the first one and
			// the later writes left behind
			opts.DirPath = verifCrashCopy(opts.DirPath)
			verifReach("second-crash-after-recovery")
		} else {
			verifAssert(db2.Close() == nil, id+".close-after-recovery-err")
		}
		db3, err := Open(opts)
		if err != nil {
			verifNote("second-open-err", err)
		}
		verifAssert(err == nil, id+".second-open-err")
		d2 := vDump(db3, kp)
		same := true
		for i := range d1.found {
			if d1.found[i] != d2.found[i] || len(d1.vals[i]) != len(d2.vals[i]) {
				same = false
				break
			}
			same = verifAnd(same, verifBytesEq(d1.vals[i], d2.vals[i]))
		}
		verifAssert(same, id+".recovered-state-not-stable")
		// a finished merge (READABLE marker; a torn or empty one is an unfinished merge) is adopted by a completed
		// Open: none may be left
		if verifFSLen(opts.DirPath+"-merge/000000000.merge-finished") > 0 {
			mf, merr := datafile.OpenFile(opts.DirPath+"-merge", 0, datafile.MergeFinishedFileSuffix, fio.StandardFIO)
			if merr == nil {
				verifAssert(mf.ReadMergeFinRecord() == 0, id+".finished-merge-not-adopted")
				_ = mf.Close()
			}
		}
	}
	verifReach("done")
	if verifParam("witness") == 1 {
		verifAssert(false, "witness")
	}
}

// vReplayOnto applies a planned op's effect to a model.
func vReplayOnto(m *vModel, o *vPlanned) {
	switch o.kind {
	case vOpPut:
		m.put(o.ki, o.v)
	case vOpDelete:
		m.del(o.ki)
	case vOpBatch:
		for i := range o.bkis {
			if o.bdels[i] {
				m.del(o.bkis[i])
			} else {
				m.put(o.bkis[i], o.bvs[i])
			}
		}
	}
}
