package xixi_kv

import "strconv"

// vDump is the observable mapping restricted to the pool keys.
type vDumpT struct {
	found []bool
	vals  [][]byte
	errs  []error
}

func vDump(db *DB, kp *vPool) *vDumpT {
	d := &vDumpT{found: make([]bool, len(kp.keys)), vals: make([][]byte, len(kp.keys)), errs: make([]error, len(kp.keys))}
	for i := range kp.keys {
		v, err := db.Get(kp.keys[i])
		d.found[i] = err == nil
		d.vals[i] = v
		if err != nil && err != ErrKeyNotFound {
			d.errs[i] = err
		}
	}
	return d
}

// vMatches returns the (possibly symbolic) truth of "dump equals model".
func vMatches(d *vDumpT, m *vModel) bool {
	ok := true
	for i := range d.found {
		if d.found[i] != m.has[i] {
			return false
		}
		if d.found[i] {
			if len(d.vals[i]) != len(m.val[i]) {
				return false
			}
			ok = verifAnd(ok, verifBytesEq(d.vals[i], m.val[i]))
		}
	}
	return ok
}

// vPlanned is one planned mutation: the plan (choices, values, model sequence) is drawn before anything is
// executed, so a native replay can rebuild it without re-running the crashed workload.
type vPlanned struct {
	kind  int
	ki    int
	v     []byte
	bkis  []int
	bdels []bool
	bvs   [][]byte
	after *vModel // model after this op (nil for Sync)
}

func vPlan(K int, kp *vPool, ops []int) []*vPlanned {
	cur := newVModel(len(kp.keys))
	var plan []*vPlanned
	for step := 0; step < K; step++ {
		o := &vPlanned{kind: ops[verifChoice("op", len(ops))]}
		nxt := cur.clone()
		switch o.kind {
		case vOpPut:
			o.ki = verifChoice("ki", len(kp.keys))
			o.v = verifValue("v")
			nxt.put(o.ki, o.v)
			o.after = nxt
		case vOpDelete:
			o.ki = verifChoice("ki", len(kp.keys))
			nxt.del(o.ki)
			o.after = nxt
		case vOpBatch:
			n := 1 + verifChoice("bops", 2)
			for i := 0; i < n; i++ {
				ki := verifChoice("bki", len(kp.keys))
				del := verifChoice("bop", 2) == 1
				var v []byte
				if del {
					nxt.del(ki)
				} else {
					v = verifValue("bv")
					nxt.put(ki, v)
				}
				o.bkis, o.bdels, o.bvs = append(o.bkis, ki), append(o.bdels, del), append(o.bvs, v)
			}
			o.after = nxt
		}
		if o.after != nil {
			cur = o.after
		}
		plan = append(plan, o)
	}
	return plan
}

// vExec executes one planned op.
func vExec(db *DB, kp *vPool, o *vPlanned, id string) {
	switch o.kind {
	case vOpPut:
		verifAssert(db.Put(kp.keys[o.ki], o.v) == nil, id+".put-err")
	case vOpDelete:
		verifAssert(db.Delete(kp.keys[o.ki]) == nil, id+".delete-err")
	case vOpSync:
		verifAssert(db.Sync() == nil, id+".sync-err")
	case vOpBatch:
		b := db.NewBatch(BatchOptions{Sync: verifParam("bsync") == 1})
		for i := range o.bkis {
			if o.bdels[i] {
				verifAssert(b.Delete(kp.keys[o.bkis[i]]) == nil, id+".bdelete-err")
			} else {
				verifAssert(b.Put(kp.keys[o.bkis[i]], o.bvs[i]) == nil, id+".bput-err")
			}
		}
		verifAssert(b.Commit() == nil, id+".commit-err")
		verifReach("batch")
	}
}

// verifHarnessC03: K mutations under a crash armed before every file-system operation; process death or power
// loss (every unsynced tail cut to a solver-chosen length); recovery must succeed and expose M_j with
// j >= the last mutation that was durable (power loss) or >= the last acknowledged one (process death).
func verifHarnessC03() {
	K := verifParam("k")
	kp := verifKeyPool(verifParam("pool"), verifParam("klen"))
	opts := verifOptions(verifDir("db"), "")
	ops := vOpsFromMask(verifParam("ops"))
	plan := vPlan(K, kp, ops)
	wantPowerLoss := verifParam("powerloss") == 1 && verifChoice("mode", 2) == 1
	// ---- phase 1 (engine only): run the plan until the crash ----
	done, started, jmin := 0, 0, 0
	if !verifNative() {
		db, err := Open(opts)
		verifAssert(err == nil, "C03.open-err")
		crashed := verifCrashable(func() {
			verifCrashArm(true)
			for i, o := range plan {
				verifSetTag("op" + strconv.Itoa(i))
				started = i + 1
				vExec(db, kp, o, "C03")
				done = i + 1
			}
			verifCrashArm(false)
		})
		if crashed {
			verifReach("crashed-mid-workload")
		}
		// durability floor: the last acknowledged mutation whose bytes were all synced (power loss),
		// or the last acknowledged one (process death)
		jmin = done
		if wantPowerLoss {
			jmin = 0
			for i := 0; i < done; i++ {
				tag := "op" + strconv.Itoa(i)
				if plan[i].after != nil && verifFSWrittenTag(tag) > 0 && verifFSUnsynced(opts.DirPath, tag) == 0 {
					jmin = i + 1
				}
			}
			verifReach("power-loss")
			if jmin < done {
				verifReach("unsynced-acked")
			}
		}
		verifCrashNow(wantPowerLoss)
	}
	done = verifCheckpointInt("done", done)
	started = verifCheckpointInt("started", started)
	jmin = verifCheckpointInt("jmin", jmin)
	torn := verifCheckpointInt("torn", verifFSTornFiles())
	// ---- phase 2 (engine and native replay): recover and compare ----
	// candidate states: after op jmin..done (only ops that are mutations change the state), plus the in-flight one
	empty := newVModel(len(kp.keys))
	stateAfter := func(n int) *vModel {
		st := empty
		for i := 0; i < n; i++ {
			if plan[i].after != nil {
				st = plan[i].after
			}
		}
		return st
	}
	var cands []*vModel
	for n := jmin; n <= started; n++ {
		cands = append(cands, stateAfter(n))
	}
	db2, err := Open(opts)
	if err != nil {
		verifNote("recovery-err", err)
	}
	if torn > 0 {
		verifReach("torn-tail")
	}
	verifAssert(err == nil, "C03.recovery-open-err")
	d := vDump(db2, kp)
	for i := range d.errs {
		verifAssert(d.errs[i] == nil, "C03.recovered-get-err")
	}
	match := false
	for _, m := range cands {
		match = verifOr(match, vMatches(d, m))
	}
	verifAssert(match, "C03.not-a-prefix")
	if verifParam("after") == 1 {
		// the recovered database keeps working: one more put, clean restart
		v := []byte{9}
		verifAssert(db2.Put(kp.keys[0], v) == nil, "C03.put-after-recovery-err")
		d1 := vDump(db2, kp)
		verifAssert(db2.Close() == nil, "C03.close-after-recovery-err")
		db3, err := Open(opts)
		if err != nil {
			verifNote("second-open-err", err)
		}
		verifAssert(err == nil, "C03.second-open-err")
		d2 := vDump(db3, kp)
		same := true
		for i := range d1.found {
			if d1.found[i] != d2.found[i] || len(d1.vals[i]) != len(d2.vals[i]) {
				same = false
				break
			}
			same = verifAnd(same, verifBytesEq(d1.vals[i], d2.vals[i]))
		}
		verifAssert(same, "C03.recovered-state-not-stable")
	}
	verifReach("done")
	if verifParam("witness") == 1 {
		verifAssert(false, "witness")
	}
}
