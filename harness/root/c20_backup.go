package xixi_kv

// verifHarnessC20: a backup taken at any time opens to the state at the time of the backup; the source is
// unaffected (no SIGBUS, no lost writes) and the copy carries no lock.
func verifHarnessC20() {
	kp := verifKeyPool(verifParam("pool"), verifParam("klen"))
	opts := verifOptions(verifDir("src"), "")
	dir2 := verifDir("copy")
	if verifParam("reldir") == 1 {
		// RELATIVE directories whose names occur inside the engine's own file names ("data" in 000000000.data)
		opts.DirPath, dir2 = "data", "hint"
	}
	src, err := Open(opts)
	verifAssert(err == nil, "C20.open-err")
	m := newVModel(len(kp.keys))
	ops := vOpsFromMask(verifParam("ops"))
	vPrefill(src, kp, m, "C20")
	for step := 0; step < verifParam("k"); step++ {
		src = vStep(src, opts, kp, m, ops, "C20")
	}
	if len(src.olderFiles) > 0 {
		verifReach("rotated")
	}
	verifAssert(src.Backup(dir2) == nil, "C20.backup-err")
	mB := m.clone()
	verifAssert(!verifFSExists(dir2+"/.lock"), "C20.copy-carries-lock")
	// the source keeps being written to
	big := verifParam("bigval")
	switch verifChoice("after", 3) {
	case 1:
		ki := verifChoice("aki", kp.hot())
		v := verifBytes("av", 1)
		verifAssert(src.Put(kp.keys[ki], v) == nil, "C20.put-after-backup-err")
		m.put(ki, v)
		verifReach("small-put-after-backup")
	case 2:
		if big > 0 {
			ki := verifChoice("aki", kp.hot())
			v := make([]byte, big)
			for i := range v {
				v[i] = byte(i*7 + 1)
			}
			verifAssert(src.Put(kp.keys[ki], v) == nil, "C20.big-put-after-backup-err")
			m.put(ki, v)
			verifReach("big-put-after-backup")
		}
	}
	if verifParam("reuse") == 1 {
		// the SAME directory is backed up into again, after further history that may include an adopted
		// merge (files shrink, placeholder files appear): the copy is the state at the LATEST Backup
		for step := 0; step < verifParam("k2"); step++ {
			src = vStep(src, opts, kp, m, vOpsFromMask(verifParam("ops2")), "C20.between")
		}
		verifAssert(src.Backup(dir2) == nil, "C20.repeated-backup-err")
		mB = m.clone()
		verifAssert(!verifFSExists(dir2+"/.lock"), "C20.copy-carries-lock")
		verifReach("backup-into-used-directory")
	}
	if verifParam("twice") == 1 {
		dir3 := verifDir("copy2")
		verifAssert(src.Backup(dir3) == nil, "C20.second-backup-err")
		o3 := opts
		o3.DirPath = dir3
		cp3, err := Open(o3)
		verifAssert(err == nil, "C20.second-copy-open-err")
		verifSameMapping(cp3, kp, m, "C20.second-copy")
		verifAssert(cp3.Close() == nil, "C20.second-copy-close-err")
		verifReach("second-backup")
	}
	// the copy opens as an independent database while the source is still open
	o2 := opts
	o2.DirPath = dir2
	cp, err := Open(o2)
	if err != nil {
		verifNote("copy-open-err", err)
	}
	verifAssert(err == nil, "C20.copy-open-err")
	verifSameMapping(cp, kp, mB, "C20.copy")
	verifAssert(cp.Close() == nil, "C20.copy-close-err")
	// the source is unaffected and remains usable
	verifSameMapping(src, kp, m, "C20.source-live")
	verifAssert(src.Close() == nil, "C20.source-close-err")
	src, err = Open(opts)
	if err != nil {
		verifNote("source-reopen-err", err)
	}
	verifAssert(err == nil, "C20.source-reopen-err")
	verifSameMapping(src, kp, m, "C20.source-after-restart")
	verifAssert(src.Close() == nil, "C20.source-close2-err")
	verifReach("done")
	if verifParam("witness") == 1 {
		verifAssert(false, "witness")
	}
}
