package xixi_kv

import (
	"errors"
	"fmt"
	"os"
	"sort"
	"strings"
	"sync"
	"sync/atomic"
)

// verifHarnessSelfTest exercises stdlib models of the engine (not a property check).
func verifHarnessSelfTest() {
	xs := []int{3, 1, 2}
	sort.Slice(xs, func(i, j int) bool { return xs[i] < xs[j] })
	verifAssert(xs[0] == 1 && xs[1] == 2 && xs[2] == 3, "self.sort-slice")
	b := verifBytes("b", 3)
	idx := []int{0, 1, 2}
	sort.Slice(idx, func(i, j int) bool { return b[idx[i]] < b[idx[j]] })
	verifAssert(b[idx[0]] <= b[idx[1]] && b[idx[1]] <= b[idx[2]], "self.sort-symbolic")
	verifAssert(strings.Contains("000000001.data", ".data") && strings.TrimSuffix("a.data", ".data") == "a", "self.strings")
	_, err := os.Stat(verifDir("nope"))
	verifAssert(errors.Is(err, os.ErrNotExist) && os.IsNotExist(err), "self.errnotexist")
	w := fmt.Errorf("wrapped: %w", ErrKeyNotFound)
	verifAssert(errors.Is(w, ErrKeyNotFound) && !errors.Is(w, ErrKeyIsEmpty), "self.errors-is-wrap")
	verifAssert(w.Error() == "wrapped: key not found in database", "self.wrap-msg")
	var n atomic.Int64
	n.Add(5)
	n.Add(-2)
	verifAssert(n.Load() == 3, "self.atomic-int64")
	var once sync.Once
	c := 0
	once.Do(func() { c++ })
	once.Do(func() { c++ })
	verifAssert(c == 1, "self.once")
	f, err := os.Create(verifDir("x"))
	verifAssert(err != nil, "self.create-in-missing-dir")
	_ = f
	os.MkdirAll(verifDir("d"), 0755)
	f, err = os.Create(verifDir("d") + "/f")
	verifAssert(err == nil, "self.create")
	f.Write([]byte("hello"))
	f.Seek(1, 0)
	buf := make([]byte, 3)
	k, _ := f.Read(buf)
	verifAssert(k == 3 && string(buf) == "ell", "self.seek-read")
	verifReach("done")
}
