package xixi_kv

import (
	"io"
	"strings"

	"github.com/XiXi-2024/xixi-kv/datafile"
	"github.com/XiXi-2024/xixi-kv/fio"
)

type vIndexEntry struct {
	key []byte
	pos datafile.DataPos
}

func vIndexEntries(db *DB) []vIndexEntry {
	var out []vIndexEntry
	it := db.index.Iterator(false)
	for it.Rewind(); it.Valid(); it.Next() {
		out = append(out, vIndexEntry{append([]byte{}, it.Key()...), *it.Value()})
	}
	it.Close()
	return out
}

// verifHarnessC18: after a real Merge, (i) every hint record names a position at which the merged files hold
// exactly that key with its live value, and the hinted keys are exactly the keys stored in the merged files;
// (ii) the index built through the hint equals the one built by scanning the same files.
func verifHarnessC18() {
	kp := verifKeyPool(verifParam("pool"), verifParam("klen"))
	opts := verifOptions(verifDir("db"), "")
	db, err := Open(opts)
	verifAssert(err == nil, "C18.open-err")
	m := newVModel(len(kp.keys))
	ops := vOpsFromMask(verifParam("ops"))
	vPrefill(db, kp, m, "C18")
	// premerge: an earlier merge generation (history, Merge, restart = adoption) before the one under test, so
	// that the data directory already holds merged files and a hint file when the second merge runs
	if pm := verifParam("premerge"); pm > 0 {
		for step := 0; step < pm; step++ {
			db = vStep(db, opts, kp, m, ops, "C18.pre")
		}
		verifAssert(db.Merge() == nil, "C18.premerge-err")
		if verifParam("prestay") == 1 {
			// the first merge is never adopted: the process stays up and merges again over the leftover
			// (finished, un-adopted) merge directory of the first
			verifSameMapping(db, kp, m, "C18.after-first-merge")
			verifReach("second-merge-over-leftover-directory")
		} else {
			verifAssert(db.Close() == nil, "C18.premerge-close-err")
			db, err = Open(opts)
			verifAssert(err == nil, "C18.premerge-reopen-err")
			verifSameMapping(db, kp, m, "C18.after-first-adoption")
			verifReach("second-generation")
		}
	}
	for step := 0; step < verifParam("k"); step++ {
		db = vStep(db, opts, kp, m, ops, "C18")
	}
	verifAssert(db.Merge() == nil, "C18.merge-err")
	verifAssert(db.Close() == nil, "C18.close-err")
	mdir := opts.DirPath + "-merge"
	// (i) decode the hint file with the real reader, and every merged data file with the real reader
	hf, err := datafile.OpenFile(mdir, 0, datafile.HintFileSuffix, fio.StandardFIO)
	verifAssert(err == nil, "C18.hint-open-err")
	merged := map[uint32]*datafile.DataFile{}
	nrec := 0
	type rk struct {
		key []byte
		pos datafile.DataPos
	}
	var scanned []rk
	for _, p := range verifFSList(mdir) {
		if !strings.HasSuffix(p, datafile.DataFileSuffix) {
			continue
		}
		fid := uint32(len(merged))
		df, err := datafile.OpenFile(mdir, fid, datafile.DataFileSuffix, fio.StandardFIO)
		verifAssert(err == nil, "C18.merged-open-err")
		merged[fid] = df
		r := df.NewReader()
		for {
			rec, pos, err := r.NextLogRecord()
			if err == io.EOF {
				break
			}
			verifAssert(err == nil, "C18.merged-scan-err")
			scanned = append(scanned, rk{rec.Key, *pos})
			nrec++
		}
	}
	if len(merged) > 1 {
		verifReach("several-output-files")
	}
	hr := hf.NewReader()
	nhint := 0
	for {
		key, pos, err := hr.NextHintRecord()
		if err == io.EOF {
			break
		}
		verifAssert(err == nil, "C18.hint-scan-err")
		nhint++
		df := merged[pos.Fid]
		verifAssert(df != nil, "C18.hint-names-missing-file")
		val, err := df.ReadRecordValue(pos)
		verifAssert(err == nil, "C18.hint-position-unreadable")
		// the record at that position carries exactly this key: find it among the scanned records
		found := false
		for _, s := range scanned {
			if s.pos == *pos {
				verifAssert(len(s.key) == len(key), "C18.hint-key-length-differs")
				verifAssert(verifBytesEq(s.key, key), "C18.hint-key-differs-from-record")
				found = true
			}
		}
		verifAssert(found, "C18.hint-position-is-not-a-record-start")
		// and the live value of that key
		ok := false
		for i := range kp.keys {
			if m.has[i] && len(kp.keys[i]) == len(key) && len(m.val[i]) == len(val) {
				ok = verifOr(ok, verifAnd(verifBytesEq(kp.keys[i], key), verifBytesEq(m.val[i], val)))
			}
		}
		verifAssert(ok, "C18.hint-entry-not-live")
		verifReach("hint-entry-checked")
	}
	verifAssert(nhint == nrec, "C18.hinted-keys-differ-from-stored-keys")
	verifAssert(nhint == m.count(), "C18.hint-count-differs-from-live-keys")
	hf.Close()
	for _, df := range merged {
		df.Close()
	}
	// (ii) hint-path Open vs scan-path Open of the same files
	db1, err := Open(opts)
	verifAssert(err == nil, "C18.hint-path-open-err")
	verifSameMapping(db1, kp, m, "C18.hint-path")
	e1 := vIndexEntries(db1)
	verifAssert(db1.Close() == nil, "C18.close2-err")
	db2, err := Open(opts)
	verifAssert(err == nil, "C18.scan-path-open-err")
	verifSameMapping(db2, kp, m, "C18.scan-path")
	e2 := vIndexEntries(db2)
	verifAssert(len(e1) == len(e2), "C18.index-size-differs")
	for i := range e1 {
		if i < len(e2) {
			verifAssert(len(e1[i].key) == len(e2[i].key), "C18.index-key-length-differs")
			verifAssert(verifBytesEq(e1[i].key, e2[i].key), "C18.index-key-differs")
			verifAssert(e1[i].pos == e2[i].pos, "C18.index-position-differs")
		}
	}
	verifReach("done")
	if verifParam("witness") == 1 {
		verifAssert(false, "witness")
	}
}
