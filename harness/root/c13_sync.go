package xixi_kv

import (
	"strconv"
	"strings"

	"github.com/XiXi-2024/xixi-kv/datafile"
)

// vRotatedFilesSynced: every data file except the one with the highest id is fully flushed
// (a file is flushed before the engine rotates away from it).
func vRotatedFilesSynced(dir, id string) {
	var data []string
	for _, p := range verifFSList(dir) {
		if strings.HasSuffix(p, datafile.DataFileSuffix) {
			data = append(data, p)
		}
	}
	for i := 0; i+1 < len(data); i++ {
		verifAssert(verifFSUnsynced(data[i], "") == 0, id+".rotated-file-unsynced")
		verifReach("rotated-checked")
	}
}

// verifHarnessC13: the sync policy is honoured at every return from a public call. The FS model knows, per
// file, which bytes were written since the last fsync/msync and by which call (tag).
func verifHarnessC13() {
	K := verifParam("k")
	kp := verifKeyPool(verifParam("pool"), verifParam("klen"))
	opts := verifOptions(verifDir("db"), "")
	db, err := Open(opts)
	verifAssert(err == nil, "C13.open-err")
	dir := opts.DirPath
	if verifParam("torntail") == 1 {
		// the history starts on a database that has just recovered from a power loss: an unsynced Put was cut at
		// a solver-chosen length, the recovering Open dropped the torn tail; the policy must hold from then on
		// (whatever per-file state recovery left behind)
		verifAssert(db.Close() == nil, "C13.close-err")
		o0 := opts
		o0.SyncStrategy = No // the write that gets torn is an unsynced one of an earlier session
		db0, err := Open(o0)
		verifAssert(err == nil, "C13.open0-err")
		verifAssert(db0.Put(kp.keys[0], verifValue("tv")) == nil, "C13.torn-put-err")
		verifCrashNow(true)
		db, err = Open(opts)
		verifAssert(err == nil, "C13.recovery-open-err")
		if verifFSTornFiles() > 0 {
			verifReach("recovered-from-torn-tail")
		}
	}
	ops := vOpsFromMask(verifParam("ops"))
	for step := 0; step < K; step++ {
		switch ops[verifChoice("op", len(ops))] {
		case vOpPut:
			verifSetTag("pd" + strconv.Itoa(step))
			ki := verifChoice("ki", kp.hot())
			verifAssert(db.Put(kp.keys[ki], verifValue("v")) == nil, "C13.put-err")
		case vOpDelete:
			verifSetTag("pd" + strconv.Itoa(step))
			ki := verifChoice("ki", kp.hot())
			verifAssert(db.Delete(kp.keys[ki]) == nil, "C13.delete-err")
		case vOpSync:
			verifSetTag("sync")
			verifAssert(db.Sync() == nil, "C13.sync-err")
			// Sync() flushes everything written so far
			verifAssert(verifFSUnsynced(dir, "") == 0, "C13.unsynced-after-Sync")
			verifReach("explicit-sync")
		case vOpBatch:
			tag := "batch" + strconv.Itoa(step)
			verifSetTag(tag)
			b := db.NewBatch(BatchOptions{Sync: verifParam("bsync") == 1})
			n := 1 + verifChoice("bops", 2)
			for i := 0; i < n; i++ {
				ki := verifChoice("bki", kp.hot())
				if verifChoice("bop", 2) == 0 {
					verifAssert(b.Put(kp.keys[ki], verifValue("bv")) == nil, "C13.bput-err")
				} else {
					verifAssert(b.Delete(kp.keys[ki]) == nil, "C13.bdelete-err")
				}
			}
			verifAssert(b.Commit() == nil, "C13.commit-err")
			if verifParam("bsync") == 1 {
				// a Sync batch is flushed, including its sealing record, before Commit returns
				verifAssert(verifFSUnsynced(dir, tag) == 0, "C13.sync-batch-unsynced-after-Commit")
				verifReach("sync-batch")
			}
		case vOpRestart:
			verifSetTag("close")
			verifAssert(db.Close() == nil, "C13.close-err")
			// Close() flushes everything written so far
			verifAssert(verifFSUnsynced(dir, "") == 0, "C13.unsynced-after-Close")
			verifReach("closed")
			db, err = Open(opts)
			verifAssert(err == nil, "C13.reopen-err")
		}
		verifSetTag("")
		// at every return
		switch opts.SyncStrategy {
		case Always:
			verifAssert(verifFSUnsynced(dir, "pd") == 0, "C13.always-unsynced-put")
		case Threshold:
			verifAssert(uint(verifFSUnsynced(dir, "pd")) < opts.BytesPerSync, "C13.threshold-exceeded")
			if verifFSUnsynced(dir, "pd") > 0 {
				verifReach("threshold-some-unsynced")
			}
		}
		vRotatedFilesSynced(dir, "C13")
	}
	verifSetTag("close")
	verifAssert(db.Close() == nil, "C13.final-close-err")
	verifAssert(verifFSUnsynced(dir, "") == 0, "C13.unsynced-after-Close")
	verifReach("done")
	if verifParam("witness") == 1 {
		verifAssert(false, "witness")
	}
}
