package xixi_kv

import (
	"io"
	"strings"

	"github.com/XiXi-2024/xixi-kv/datafile"
)

// vCheckStat: Stat is exact and data files respect the size limit.
func vCheckStat(db *DB, opts Options, m *vModel, id string) {
	st := db.Stat()
	verifAssert(st.KeyNum == m.count(), id+".keynum")
	nfiles := 0
	for _, p := range verifFSList(opts.DirPath) {
		if strings.HasSuffix(p, datafile.DataFileSuffix) {
			nfiles++
		}
	}
	verifAssert(st.DataFileNum == nfiles, id+".datafilenum")
	verifAssert(st.ReclaimableSize >= 0, id+".reclaimable-negative")
	verifAssert(st.ReclaimableSize <= st.DiskSize, id+".reclaimable-exceeds-disk")
	// bytes occupied by the live records: the sizes held by the live index entries
	var live int64
	it := db.index.Iterator(false)
	for it.Rewind(); it.Valid(); it.Next() {
		live += int64(it.Value().Size)
	}
	it.Close()
	verifAssert(st.DiskSize-st.ReclaimableSize == live, id+".live-bytes")
	// every data file is within the limit unless it holds a single record (plus a sealing record)
	files := []*datafile.DataFile{db.activeFile}
	for _, f := range db.olderFiles {
		files = append(files, f)
	}
	for _, f := range files {
		if f.Size() <= opts.DataFileSize {
			continue
		}
		r := f.NewReader()
		nrec, nfin := 0, 0
		for {
			rec, _, err := r.NextLogRecord()
			if err == io.EOF {
				break
			}
			verifAssert(err == nil, id+".scan-err")
			if rec.Type == datafile.LogRecordBatchFinished {
				nfin++
			} else {
				nrec++
			}
		}
		verifReach("oversized-file")
		verifAssert(nrec <= 1 && nfin <= 1, id+".file-exceeds-limit")
	}
}

// verifHarnessC17: the C01/C02 driver with Stat checked after every step (live and across restarts),
// and Merge never refused for lack of space.
func verifHarnessC17() {
	K := verifParam("k")
	kp := verifKeyPool(verifParam("pool"), verifParam("klen"))
	opts := verifOptions(verifDir("db"), "")
	db, err := Open(opts)
	verifAssert(err == nil, "C17.open-err")
	m := newVModel(len(kp.keys))
	ops := vOpsFromMask(verifParam("ops"))
	vPrefill(db, kp, m, "C17")
	for step := 0; step < K; step++ {
		db = vStep(db, opts, kp, m, ops, "C17")
		vCheckStat(db, opts, m, "C17")
	}
	// counters never drift into refusing a merge
	verifAssert(db.mergeCheck() != ErrNoEnoughSpaceForMerge, "C17.merge-refused-no-space")
	verifAssert(db.Close() == nil, "C17.close-err")
	db, err = Open(opts)
	verifAssert(err == nil, "C17.reopen-err")
	vCheckStat(db, opts, m, "C17.after-restart")
	verifAssert(db.mergeCheck() != ErrNoEnoughSpaceForMerge, "C17.merge-refused-no-space-after-restart")
	verifReach("done")
	if verifParam("witness") == 1 {
		verifAssert(false, "witness")
	}
}
