package xixi_kv

// verifHarnessC05: batch staging semantics. Pre-history of plain puts (a small symbolic DataFileSize puts
// some of them into rotated files), then K batch calls over {Put, Delete, Get}, Commit, and the
// committed-batch rejections. Oracle: layered model (staged layer over the database map).
func verifHarnessC05() {
	K := verifParam("k")
	pre := verifParam("pre")
	kp := verifKeyPool(verifParam("pool"), verifParam("klen"))
	opts := verifOptions(verifDir("db"), "")
	db, err := Open(opts)
	verifAssert(err == nil, "C05.open-err")
	m := newVModel(len(kp.keys))
	for i := 0; i < pre; i++ {
		ki := verifChoice("pki", kp.hot())
		v := verifValue("pv")
		verifAssert(db.Put(kp.keys[ki], v) == nil, "C05.pre-put-err")
		m.put(ki, v)
	}
	if len(db.olderFiles) > 0 {
		verifReach("pre-rotated")
	}
	b := db.NewBatch(BatchOptions{Sync: verifParam("bsync") == 1})
	st := m.clone()
	nfiles := len(db.olderFiles)
	for i := 0; i < K; i++ {
		ki := verifChoice("bki", kp.hot())
		switch verifChoice("bop", 3) {
		case 0:
			v := verifValue("bv")
			verifAssert(b.Put(kp.keys[ki], v) == nil, "C05.batch-put-err")
			st.put(ki, v)
		case 1:
			verifAssert(b.Delete(kp.keys[ki]) == nil, "C05.batch-delete-err")
			st.del(ki)
		case 2:
			v, err := b.Get(kp.keys[ki])
			if st.has[ki] {
				verifAssert(err == nil, "C05.batch-get-missing")
				verifAssert(len(v) == len(st.val[ki]), "C05.batch-get-len")
				verifAssert(verifBytesEq(v, st.val[ki]), "C05.batch-get-value")
			} else {
				verifAssert(err == ErrKeyNotFound, "C05.batch-get-phantom")
			}
		}
	}
	if len(db.olderFiles) > nfiles {
		verifReach("batch-overflow-flush")
	}
	verifAssert(b.Commit() == nil, "C05.commit-err")
	verifSameMapping(db, kp, st, "C05.after-commit")
	// a committed batch rejects further use (and must not take the process down)
	verifAssert(b.Put(kp.keys[0], []byte{1}) == ErrBatchCommitted, "C05.put-after-commit")
	_, gerr := b.Get(kp.keys[0])
	verifAssert(gerr == ErrBatchCommitted, "C05.get-after-commit")
	verifAssert(b.Delete(kp.keys[0]) == ErrBatchCommitted, "C05.delete-after-commit")
	verifAssert(b.Commit() == ErrBatchCommitted, "C05.commit-after-commit")
	verifSameMapping(db, kp, st, "C05.after-rejected-use")
	// the database is usable again after the batch
	verifAssert(db.Put(kp.keys[0], []byte{7}) == nil, "C05.put-after-batch")
	st.put(0, []byte{7})
	verifSameMapping(db, kp, st, "C05.after-batch-put")
	verifReach("done")
	if verifParam("witness") == 1 {
		verifAssert(false, "witness")
	}
}
