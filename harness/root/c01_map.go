package xixi_kv

// Operation alphabet bits (param "ops").
const (
	vOpPut = 1 << iota
	vOpDelete
	vOpSync
	vOpMerge
	vOpRestart
	vOpBatch
)

func vOpsFromMask(mask int) []int {
	var ops []int
	for b := 1; b <= vOpBatch; b <<= 1 {
		if mask&b != 0 {
			ops = append(ops, b)
		}
	}
	return ops
}

// vApplyBatch runs one batch of 1..maxOps staged operations and updates the model on successful commit.
func vApplyBatch(db *DB, kp *vPool, m *vModel, maxOps int, id string) {
	b := db.NewBatch(BatchOptions{Sync: verifParam("bsync") == 1})
	n := 1
	if maxOps > 1 {
		n = 1 + verifChoice("bops", maxOps)
	}
	staged := m.clone()
	// bcycles: the batch first stages N Put+Delete cycles (pool keys in turn, 1-byte values) - records the batch
	// stages, cancels and still has to write as tombstones - before its symbolic operations
	for c := 0; c < verifParam("bcycles"); c++ {
		ki := c % kp.hot()
		verifAssert(b.Put(kp.keys[ki], verifBytes("bcv", 1)) == nil, id+".batch-put-err")
		verifAssert(b.Delete(kp.keys[ki]) == nil, id+".batch-delete-err")
		staged.del(kp.canon[ki])
	}
	for i := 0; i < n; i++ {
		ki := verifChoice("bki", kp.hot())
		if verifChoice("bop", 2) == 0 {
			v := verifValue("bv")
			verifAssert(b.Put(kp.keys[ki], v) == nil, id+".batch-put-err")
			staged.put(kp.canon[ki], v)
		} else {
			verifAssert(b.Delete(kp.keys[ki]) == nil, id+".batch-delete-err")
			staged.del(kp.canon[ki])
		}
	}
	verifAssert(b.Commit() == nil, id+".batch-commit-err")
	copy(m.has, staged.has)
	copy(m.val, staged.val)
	verifReach("batch-committed")
}

// vStep performs one operation of the alphabet on db and the model; returns the (possibly reopened) db.
func vStep(db *DB, opts Options, kp *vPool, m *vModel, ops []int, id string) *DB {
	op := ops[verifChoice("op", len(ops))]
	if verifParam("emptykey") == 1 && (op == vOpPut || op == vOpDelete) && verifChoice("empty-key", 2) == 1 {
		// key length 0: the operation is rejected and changes nothing (the callers compare the mapping next)
		var ek []byte
		if verifChoice("nil-key", 2) == 1 {
			ek = []byte{}
		}
		if op == vOpPut {
			verifAssert(db.Put(ek, verifValue("v")) == ErrKeyIsEmpty, id+".empty-key-put-accepted")
		} else {
			verifAssert(db.Delete(ek) == ErrKeyIsEmpty, id+".empty-key-delete-accepted")
		}
		_, gerr := db.Get(ek)
		verifAssert(gerr == ErrKeyIsEmpty, id+".empty-key-get")
		b := db.NewBatch(DefaultBatchOptions)
		verifAssert(b.Put(ek, []byte{1}) == ErrKeyIsEmpty && b.Delete(ek) == ErrKeyIsEmpty, id+".empty-key-batch-accepted")
		_, gerr = b.Get(ek)
		verifAssert(gerr == ErrKeyIsEmpty, id+".empty-key-batch-get")
		verifAssert(b.Commit() == nil, id+".empty-batch-commit-err")
		verifReach("empty-key-rejected")
		return db
	}
	switch op {
	case vOpPut:
		ki := verifChoice("ki", kp.hot())
		v := verifValue("v")
		verifAssert(db.Put(kp.keys[ki], v) == nil, id+".put-err")
		m.put(kp.canon[ki], v)
	case vOpDelete:
		ki := verifChoice("ki", kp.hot())
		verifAssert(db.Delete(kp.keys[ki]) == nil, id+".delete-err")
		m.del(kp.canon[ki])
	case vOpSync:
		verifAssert(db.Sync() == nil, id+".sync-err")
	case vOpMerge:
		// a refused merge must change nothing; an accepted one must change nothing either
		if pct := verifParam("ratio_pct"); pct > 0 {
			// merge-ratio policy: refused exactly when more than ratio_floor bytes are stored (the 256 MiB floor,
			// scaled by the job) and the reclaimable share is below the configured ratio; Stat is checked exact
			// elsewhere (C17), so it is an independent source for both sizes
			st := db.Stat()
			want := st.DiskSize > int64(verifParam("ratio_floor")) && float32(st.ReclaimableSize)/float32(st.DiskSize) < opts.DataFileMergeRatio
			err := db.Merge()
			verifAssert((err == ErrMergeRatioUnreached) == want, id+".merge-ratio-policy")
			verifAssert(err == nil || err == ErrMergeRatioUnreached, id+".merge-refused")
			if err != nil {
				verifReach("merge-refused-by-ratio")
			} else if st.DiskSize > int64(verifParam("ratio_floor")) {
				verifReach("merge-allowed-by-ratio")
			}
			verifReach("merged")
			break
		}
		_ = db.Merge()
		verifReach("merged")
	case vOpRestart:
		verifAssert(db.Close() == nil, id+".close-err")
		ndb, err := Open(opts)
		verifAssert(err == nil, id+".reopen-err")
		db = ndb
		verifReach("restarted")
	case vOpBatch:
		vApplyBatch(db, kp, m, verifParam("bmax"), id)
	}
	return db
}

// verifHarnessC01: K operations from the alphabet; after every step the observable mapping equals the model.
func verifHarnessC01() {
	K := verifParam("k")
	kp := verifKeyPool(verifParam("pool"), verifParam("klen"))
	opts := verifOptions(verifDir("db"), "")
	db, err := Open(opts)
	verifAssert(err == nil, "C01.open-err")
	m := newVModel(len(kp.keys))
	ops := vOpsFromMask(verifParam("ops"))
	vPrefill(db, kp, m, "C01")
	for step := 0; step < K; step++ {
		db = vStep(db, opts, kp, m, ops, "C01")
		verifSameMapping(db, kp, m, "C01")
	}
	if len(db.olderFiles) > 0 {
		verifReach("rotated")
	}
	verifReach("done")
	if verifParam("witness") == 1 {
		verifAssert(false, "witness")
	}
}
