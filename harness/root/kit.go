package xixi_kv

import (
	"github.com/cespare/xxhash"

	"github.com/XiXi-2024/xixi-kv/fio"
	"github.com/XiXi-2024/xixi-kv/index"
)

// ---------- shared harness kit: key pool, reference model, dump/compare ----------

// vPool is a pool of symbolic keys whose equality classes have been decided by the solver
// (one fork per pair), so the reference model can be indexed by a concrete class id.
type vPool struct {
	keys  [][]byte
	canon []int // canon[i] = smallest j with keys[j] == keys[i]
	nhot  int   // number of leading keys the symbolic operations choose from (0 = all); the rest is the crowd
}

// hot: how many keys the symbolic operations choose from. Param crowd=N appends N concrete keys ("c000"...) that
// vPrefill writes once and nobody touches afterwards: the index holds many entries (B-tree splits, skip-list
// levels, all shards populated, long merged iterations) while the path count stays that of the hot keys.
func (kp *vPool) hot() int {
	if kp.nhot > 0 {
		return kp.nhot
	}
	return len(kp.keys)
}

func vCrowdKey(i int) []byte {
	return []byte{'c', byte('0' + i/100), byte('0' + i/10%10), byte('0' + i%10)}
}

// vConcreteKeyFamilies: concrete pools built around representation boundaries that short symbolic keys cannot
// reach (param ckeys = 1-based family): the skip list orders by a float64 score of the first 8 bytes (53
// significant bits), so keys equal in 7 bytes and different in the 8th share a score; keys that are
// prefixes of each other; 0x00 / 0xFF neighbours; lengths 7/8/9.
var vConcreteKeyFamilies = [][]string{
	{"acct:001/balance", "acct:002/balance", "acct:00"},
	{"k", "k\x00", "k\xff"},
	{"1234567", "12345678", "123456789"},
	{"\xff\xff\xff\xff\xff\xff\xff\xfe", "\xff\xff\xff\xff\xff\xff\xff\xff", "\xff\xff\xff\xff\xff\xff\xff\xff\x00"},
	// family 5: two DIFFERENT 16-byte keys with the SAME xxhash64 (constructed by inverting XXH64's per-word
	// round; checked against the real hash when the pool is built) plus a bystander: everything keyed by the
	// 64-bit hash (the batch's staging table, shard placement) must still tell them apart
	{"user:0001/profil", "user:001\x1c\x87\x34\x82\xc7\x79\x31\x1e", "user:0021/profil"},
	// family 6: 40-byte keys (longer than any header or reserve constant in the code: 7, 12, 27, 46, 70-key ...)
	{"tenant/0000000000000000000000000000/key-a", "tenant/0000000000000000000000000000/key-b", "tenant/0000000000000000000000000000/key-c"},
}

func verifKeyPool0(p int, maxLen int) *vPool {
	if f := verifParam("ckeys"); f > 0 {
		fam := vConcreteKeyFamilies[f-1]
		if f == 5 {
			verifAssert(xxhash.Sum64([]byte(fam[0])) == xxhash.Sum64([]byte(fam[1])), "kit.collision-family-does-not-collide")
			verifReach("hash-collision-pair")
		}
		kp := &vPool{}
		for i, k := range fam {
			kp.keys = append(kp.keys, []byte(k))
			kp.canon = append(kp.canon, i)
		}
		return kp
	}
	kp := &vPool{keys: make([][]byte, p), canon: make([]int, p)}
	for i := 0; i < p; i++ {
		kl := 1
		if maxLen > 1 {
			kl = 1 + verifChoice("klen", maxLen)
		}
		kp.keys[i] = verifBytes("key", kl)
		kp.canon[i] = i
		// Without loss of generality pool keys are pairwise distinct (using one key twice is choosing the
		// same pool index twice) and, among keys of one length, ascending (the implementation is
		// symmetric in the pool index; hash placement is an uninterpreted function).
		for j := 0; j < i; j++ {
			if len(kp.keys[j]) == len(kp.keys[i]) {
				verifAssume(verifBytesLess(kp.keys[j], kp.keys[i]))
			}
		}
	}
	return kp
}

func verifKeyPool(p int, maxLen int) *vPool {
	kp := verifKeyPool0(p, maxLen)
	if n := verifParam("crowd"); n > 0 {
		kp.nhot = len(kp.keys)
		for i := 0; i < n; i++ {
			kp.keys = append(kp.keys, vCrowdKey(i))
			kp.canon = append(kp.canon, len(kp.keys)-1)
		}
	}
	return kp
}

// vModel is the last-write-wins reference map over pool classes.
type vModel struct {
	has []bool
	val [][]byte
}

func newVModel(p int) *vModel {
	return &vModel{has: make([]bool, p), val: make([][]byte, p)}
}

func (m *vModel) clone() *vModel {
	c := newVModel(len(m.has))
	copy(c.has, m.has)
	copy(c.val, m.val)
	return c
}

// the model keeps a private copy: aliasing defects are C15's subject, not the map semantics'
func (m *vModel) put(c int, v []byte) { m.has[c] = true; m.val[c] = append([]byte{}, v...) }
func (m *vModel) del(c int)           { m.has[c] = false; m.val[c] = nil }
func (m *vModel) count() int {
	n := 0
	for _, h := range m.has {
		if h {
			n++
		}
	}
	return n
}

// sortedPresent returns the classes present in the model in ascending key order
// (order decided by the solver through the same lexicographic terms the implementation uses).
func (m *vModel) sortedPresent(kp *vPool) []int {
	var out []int
	for c := range m.has {
		if m.has[c] && kp.canon[c] == c {
			out = append(out, c)
		}
	}
	for i := 1; i < len(out); i++ {
		for j := i; j > 0; j-- {
			if verifBytesLess(kp.keys[out[j]], kp.keys[out[j-1]]) {
				out[j], out[j-1] = out[j-1], out[j]
			} else {
				break
			}
		}
	}
	return out
}

// verifSameMapping asserts that the database's observable mapping equals the model:
// Get of every pool key, ListKeys (sorted, complete), Fold (same pairs, same order), Stat.KeyNum.
func verifSameMapping(db *DB, kp *vPool, m *vModel, id string) {
	for c := range m.has {
		if kp.canon[c] != c {
			continue
		}
		v, err := db.Get(kp.keys[c])
		if m.has[c] {
			verifAssert(err == nil, id+".get-missing")
			verifAssert(len(v) == len(m.val[c]), id+".get-len")
			verifAssert(verifBytesEq(v, m.val[c]), id+".get-value")
		} else {
			verifAssert(err == ErrKeyNotFound, id+".get-phantom")
		}
	}
	exp := m.sortedPresent(kp)
	keys := db.ListKeys()
	verifAssert(len(keys) == len(exp), id+".listkeys-count")
	for i := range keys {
		_ = append(keys[i], '/', 0xEE) // appending to one returned key must not disturb its neighbours
	}
	for i := range exp {
		verifAssert(len(keys[i]) == len(kp.keys[exp[i]]), id+".listkeys-keylen")
		verifAssert(verifBytesEq(keys[i], kp.keys[exp[i]]), id+".listkeys-order")
	}
	i := 0
	ok := true
	err := db.Fold(func(k, v []byte) bool {
		if i >= len(exp) {
			ok = false
			return false
		}
		c := exp[i]
		if len(k) != len(kp.keys[c]) || len(v) != len(m.val[c]) {
			ok = false
			return false
		}
		verifAssert(verifAnd(verifBytesEq(k, kp.keys[c]), verifBytesEq(v, m.val[c])), id+".fold-pair")
		i++
		return true
	})
	verifAssert(err == nil, id+".fold-err")
	verifAssert(ok && i == len(exp), id+".fold-shape")
	// a callback that returns false stops the walk at once (and releases whatever Fold holds: the histories go on
	// writing afterwards, a leaked lock would show as a deadlock)
	calls := 0
	err = db.Fold(func(k, v []byte) bool {
		calls++
		return false
	})
	verifAssert(err == nil, id+".fold-early-stop-err")
	if len(exp) > 0 {
		verifAssert(calls == 1, id+".fold-early-stop-ignored")
	} else {
		verifAssert(calls == 0, id+".fold-on-empty-called-back")
	}
	verifAssert(db.Stat().KeyNum == len(exp), id+".stat-keynum")
}

// verifOptions builds Options from job parameters. DataFileSize is symbolic within [dfsLo, dfsHi].
func verifOptions(dir string, tag string) Options {
	o := Options{
		DirPath:            dir,
		IndexType:          index.IndexType(verifParam("index")),
		ShardNum:           verifParam("shards"),
		FileIOType:         fio.FileIOType(verifParam("io")),
		SyncStrategy:       SyncStrategy(verifParam("sync")),
		DataFileMergeRatio: 0,
	}
	if sw := verifParam("cfgsweep"); sw >= 1 && tag == "" {
		// the configuration itself is a choice point: every IndexType x {1,3} shards x FileIOType x SyncStrategy
		// combination is explored for the same symbolic history (no hand-picked combinations)
		o.IndexType = index.IndexType(1 + verifChoice("cfg-index", 3))
		o.ShardNum = 1 + 2*verifChoice("cfg-shards", 2)
		o.FileIOType = fio.FileIOType(verifChoice("cfg-io", 2))
		o.SyncStrategy = SyncStrategy(verifChoice("cfg-sync", 4-sw)) // cfgsweep 2: No / Always only (Threshold adds a symbolic BytesPerSync)
	}
	if verifParam("bgmerge") == 1 {
		o.EnableBackgroundMerge = true // the ticker never fires in the engine's time model; the goroutine waits for Close
	}
	if pct := verifParam("ratio_pct"); pct > 0 {
		o.DataFileMergeRatio = float32(pct) / 100
	}
	if o.IndexType == 0 {
		o.IndexType = index.HashMap
	}
	if o.ShardNum == 0 {
		o.ShardNum = 1
	}
	lo, hi := verifParam("dfs_lo"), verifParam("dfs_hi")
	if hi == 0 {
		o.DataFileSize = 1 << 20
	} else if lo == hi {
		o.DataFileSize = int64(lo)
	} else {
		d := int64(verifInt("dfs" + tag))
		verifAssume(d >= int64(lo))
		verifAssume(d <= int64(hi))
		o.DataFileSize = d
	}
	if o.SyncStrategy == Threshold {
		bps := verifInt("bps" + tag)
		verifAssume(bps >= 1)
		verifAssume(bps <= 200)
		o.BytesPerSync = uint(bps)
	}
	return o
}

// verifValue draws a value whose length is one of the classes selected by parameters:
// 0, 1, small, and windows around one and two block payloads.
func verifValue(name string) []byte {
	n := verifParam("vlens")
	if n == 0 {
		n = 3
	}
	var l int
	switch verifChoice(name+"-len", n) {
	case 0:
		l = 1
	case 1:
		l = 0
	case 2:
		l = verifParam("vbig") // around a block payload (set per job)
	case 3:
		l = verifParam("vbig2")
		if l < 0 {
			// a symbolic length in [0, -vbig2]: the solver enumerates every feasible value
			l = verifInt(name + "-symlen")
			verifAssume(l >= 0)
			verifAssume(l <= -verifParam("vbig2"))
		}
	case 4:
		l = verifParam("vbig3")
	}
	// vwin_lo..vwin_hi: (real-geometry jobs) one more length class - a symbolic length inside a window, e.g. around
	// the value length that lands the record end on a 32 KiB block boundary; the solver enumerates the window
	if hi := verifParam("vwin_hi"); hi > 0 && verifChoice(name+"-win", 2) == 1 {
		l = verifInt(name + "-winlen")
		verifAssume(l >= verifParam("vwin_lo"))
		verifAssume(l <= hi)
	}
	if sp := verifParam("sparse"); l > 64 && sp >= 1 {
		// long values at real geometry: concrete filler with symbolic first, middle and last bytes
		// (sparse 2: the filler is ZERO - sparse / zero-padded buffers, whose bytes look like unwritten space)
		v := make([]byte, l)
		for i := range v {
			if sp == 1 {
				v[i] = byte(i*131 + 7)
			}
		}
		v[0], v[l/2], v[l-1] = verifU8(name+"-b0"), verifU8(name+"-bm"), verifU8(name+"-bl")
		return v
	}
	return verifBytes(name, l)
}

// vPrefill: n acknowledged Puts (pool keys in turn, symbolic 1-byte values) before the history under test.
// With a DataFileSize of about one record every Put rotates, so the directory holds n data files
// (ids up to n-1: two-digit ids, ids beyond a shard/array size, ...) without any branching.
func vPrefill(db *DB, kp *vPool, m *vModel, id string) {
	for i := kp.hot(); i < len(kp.keys) && kp.nhot > 0; i++ {
		v := []byte{byte(i)}
		verifAssert(db.Put(kp.keys[i], v) == nil, id+".crowd-put-err")
		m.put(i, v)
	}
	if kp.nhot > 0 {
		verifReach("crowd")
	}
	n := verifParam("fill")
	for i := 0; i < n; i++ {
		ki := i % kp.hot()
		v := verifBytes("fill", 1)
		verifAssert(db.Put(kp.keys[ki], v) == nil, id+".fill-put-err")
		m.put(ki, v)
	}
	if n > 0 && len(db.olderFiles) >= 9 {
		verifReach("many-files")
	}
}
