package xixi_kv

import (
	"io"
	"strings"

	"github.com/XiXi-2024/xixi-kv/datafile"
)

// vMergedFilesOnlyLive: every record stored in a data file with id < limit is the live record of its key
// (same position in the index) — i.e. the files below the merge marker were really rewritten.
func vMergedFilesOnlyLive(db *DB, limit uint32, id string) {
	files := []*datafile.DataFile{db.activeFile}
	for _, f := range db.olderFiles {
		files = append(files, f)
	}
	for _, f := range files {
		if f.ID >= limit {
			continue
		}
		r := f.NewReader()
		for {
			rec, pos, err := r.NextLogRecord()
			if err == io.EOF {
				break
			}
			verifAssert(err == nil, id+".scan-err")
			if err != nil {
				break
			}
			verifAssert(rec.Type == datafile.LogRecordNormal, id+".garbage-kept-non-normal")
			ip := db.index.Get(rec.Key)
			verifAssert(ip != nil && *ip == *pos, id+".garbage-kept")
			verifReach("merged-record-checked")
		}
	}
}

// verifHarnessC06: history, Merge, optional post-merge write, adopting restart, second restart.
func verifHarnessC06() {
	K := verifParam("k")
	kp := verifKeyPool(verifParam("pool"), verifParam("klen"))
	opts := verifOptions(verifDir("db"), "")
	db, err := Open(opts)
	verifAssert(err == nil, "C06.open-err")
	m := newVModel(len(kp.keys))
	ops := vOpsFromMask(verifParam("ops"))
	vPrefill(db, kp, m, "C06")
	// premerge: an earlier merge generation (history, Merge, adopting restart) before the one under test
	if pm := verifParam("premerge"); pm > 0 {
		for step := 0; step < pm; step++ {
			db = vStep(db, opts, kp, m, ops, "C06.pre")
		}
		verifAssert(db.Merge() == nil, "C06.premerge-err")
		if verifParam("prestay") == 1 {
			// the first merge is never adopted: the process stays up and merges again over the leftover
			// (finished, un-adopted) merge directory of the first
			verifSameMapping(db, kp, m, "C06.after-first-merge")
			verifReach("second-merge-over-leftover-directory")
		} else {
			verifAssert(db.Close() == nil, "C06.premerge-close-err")
			db, err = Open(opts)
			verifAssert(err == nil, "C06.premerge-reopen-err")
			verifSameMapping(db, kp, m, "C06.after-first-adoption")
			verifReach("second-generation")
		}
	}
	for step := 0; step < K; step++ {
		db = vStep(db, opts, kp, m, ops, "C06")
	}
	if verifParam("permute") == 1 {
		verifPermuteMaps(true) // Merge ranges over the map of older files: every iteration order
	}
	nInput := len(db.olderFiles) + 1
	marker := db.activeFile.ID + 1
	merr := db.Merge()
	verifPermuteMaps(false)
	verifSameMapping(db, kp, m, "C06.after-merge")
	if merr != nil {
		verifNote("merge-err", merr)
		verifReach("merge-refused")
	} else {
		verifReach("merge-done")
	}
	post := false
	if verifParam("post") == 1 {
		switch verifChoice("post", 3) {
		case 1:
			ki := verifChoice("post-ki", kp.hot())
			v := verifValue("post-v")
			verifAssert(db.Put(kp.keys[ki], v) == nil, "C06.post-put-err")
			m.put(ki, v)
			post = true
		case 2:
			ki := verifChoice("post-ki", kp.hot())
			verifAssert(db.Delete(kp.keys[ki]) == nil, "C06.post-delete-err")
			m.del(ki)
			post = true
		}
	}
	verifAssert(db.Close() == nil, "C06.close-err")
	if verifParam("spelling") == 1 {
		// the adopting process spells the directory differently (trailing separator); so does the second restart
		opts.DirPath += "/"
		verifReach("other-spelling")
	}
	if verifParam("r_index") != 0 || verifParam("r_io") != 0 || verifParam("r_dfs_hi") != 0 || verifParam("r_shards") != 0 {
		// the merge is adopted by a process with ANOTHER configuration (index type, shard count, back-end, a
		// DataFileSize below the size of existing files), which keeps running the database afterwards
		dir := opts.DirPath
		opts = verifReaderOptions(opts)
		opts.DirPath = dir
		verifReach("adopted-under-other-configuration")
	}
	db, err = Open(opts)
	if err != nil {
		verifNote("reopen-err", err)
	}
	verifAssert(err == nil, "C06.adopting-reopen-err")
	verifSameMapping(db, kp, m, "C06.after-adoption")
	if merr == nil {
		verifAssert(!verifFSExists(opts.DirPath+"-merge"), "C06.merge-dir-left-behind")
		if !post {
			vMergedFilesOnlyLive(db, marker, "C06.reclaim")
		}
		nOut := 0
		for _, p := range verifFSList(opts.DirPath) {
			if strings.HasSuffix(p, datafile.DataFileSuffix) && verifFSLen(p) > 0 {
				nOut++
			}
		}
		if nOut < nInput {
			verifReach("fewer-files-out")
		}
	}
	verifAssert(db.Close() == nil, "C06.close2-err")
	db, err = Open(opts)
	verifAssert(err == nil, "C06.second-reopen-err")
	verifSameMapping(db, kp, m, "C06.after-second-restart")
	verifAssert(db.Close() == nil, "C06.close3-err")
	verifReach("done")
	if verifParam("witness") == 1 {
		verifAssert(false, "witness")
	}
}
