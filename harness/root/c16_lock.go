package xixi_kv

import (
	"strings"

	"github.com/XiXi-2024/xixi-kv/index"
)

// vOnlyLockFileTouched: the FS op log since op index `from` shows no mutating operation on anything but the lock file.
func vOnlyLockFileTouched(from int, id string) {
	for i := from; i < verifFSOps(); i++ {
		k := verifFSOpKind(i)
		if strings.HasSuffix(k, ".lock") {
			continue
		}
		verifNote("foreign-op", k)
		verifAssert(false, id)
	}
}

// verifHarnessC16: one open database per directory; the lock is released by Close and by a failed Open.
func verifHarnessC16() {
	kp := verifKeyPool(1, 1)
	opts := verifOptions(verifDir("db"), "")
	a, err := Open(opts)
	verifAssert(err == nil, "C16.open-err")
	verifAssert(a.Put(kp.keys[0], []byte{1}) == nil, "C16.put-err")
	if verifParam("pendingmerge") == 1 {
		// the owner has a FINISHED merge waiting for adoption (merge directory with marker and hint next to the
		// data directory): a refused Open must not adopt it, remove it or touch anything else
		verifAssert(a.Put(kp.keys[0], []byte{3}) == nil, "C16.put-err")
		verifAssert(a.Merge() == nil, "C16.merge-err")
		verifAssert(verifFSExists(opts.DirPath+"-merge"), "C16.no-pending-merge")
		verifReach("pending-merge")
	}
	// while a is open every other Open fails with the in-use error and leaves the directory alone
	o2 := opts
	o2.ShardNum = 2
	from := verifFSOps()
	nData, nMerge := len(verifFSList(opts.DirPath)), len(verifFSList(opts.DirPath+"-merge"))
	b, err := Open(o2)
	verifAssert(err == ErrDatabaseIsUsing, "C16.second-open-not-rejected")
	verifAssert(b == nil, "C16.second-open-returned-handle")
	// (the listing comparison is checkable in a native replay too, so it comes first; the op log is engine-only)
	verifAssert(len(verifFSList(opts.DirPath)) == nData && len(verifFSList(opts.DirPath+"-merge")) == nMerge, "C16.rejected-open-changed-directory-listing")
	vOnlyLockFileTouched(from, "C16.rejected-open-touched-directory")
	verifAssert(a.Put(kp.keys[0], []byte{2}) == nil, "C16.put2-err")
	verifAssert(a.Close() == nil, "C16.close-err")
	switch verifChoice("scenario", 5) {
	case 4:
		// an Open that leaves by a PANIC after the lock is taken (an IndexType the index constructor rejects) is a
		// failed Open too: "every exit path of Open" releases the lock
		bad := opts
		bad.IndexType = index.IndexType(99)
		func() {
			defer func() {
				if recover() != nil {
					verifReach("open-panicked")
				}
			}()
			x, err := Open(bad)
			if err == nil {
				verifAssert(x.Close() == nil, "C16.close-bad-err")
			}
		}()
		c, err := Open(opts)
		if err != nil {
			verifNote("err", err)
		}
		verifAssert(err == nil, "C16.lock-kept-by-panicking-open")
		verifAssert(c.Close() == nil, "C16.close8-err")
	case 3:
		// a stale handle closed again while a newer handle owns the directory must not let a third one in
		b2, err := Open(opts)
		verifAssert(err == nil, "C16.open-after-close-refused")
		_ = a.Close()
		c, err := Open(o2)
		verifAssert(err == ErrDatabaseIsUsing && c == nil, "C16.second-open-not-rejected-after-stale-close")
		verifAssert(b2.Close() == nil, "C16.close6-err")
		d, err := Open(opts)
		verifAssert(err == nil, "C16.open-after-close-refused")
		verifAssert(d.Close() == nil, "C16.close7-err")
		verifReach("stale-close")
	case 0:
		// released by Close
		c, err := Open(opts)
		verifAssert(err == nil, "C16.open-after-close-refused")
		verifAssert(c.Close() == nil, "C16.close2-err")
		verifReach("reopened-after-close")
	case 1:
		// an Open that fails because a data file is damaged releases the lock
		name := opts.DirPath + "/000000000.data"
		old := verifFSBytes(name)
		pos := verifInt("dmg_pos")
		verifAssume(pos >= 0)
		verifAssume(pos < len(old))
		p := verifConcInt(pos)
		mask := verifU8("dmg_mask")
		verifAssume(mask != 0)
		verifCorrupt(name, p, old[p]^mask)
		x, err := Open(opts)
		if err == nil {
			// harmless damage: a normal open database
			verifAssert(x.Close() == nil, "C16.close-damaged-err")
		} else {
			verifReach("failed-open-corrupt")
		}
		// undo the damage - unless the file was replaced meanwhile (a pending merge adopted by the Open above)
		if cur := verifFSBytes(name); len(cur) == len(old) && cur[p] == old[p]^mask {
			verifCorrupt(name, p, old[p])
		}
		c, err := Open(opts)
		if err != nil {
			verifNote("err", err)
		}
		verifAssert(err == nil, "C16.lock-kept-by-failed-open")
		verifAssert(c.Close() == nil, "C16.close3-err")
	case 2:
		// an Open whose k-th file-system call fails (every k) releases the lock
		k := verifChoice("failat", verifParam("maxfail"))
		verifFailAt(k)
		c, err := Open(opts)
		n := verifFSCalls()
		verifFailAt(-1)
		verifAssume(k < n) // the failing call was actually issued
		if err == nil {
			// the error was tolerated by Open: fine, it is a normal open database
			verifAssert(c.Close() == nil, "C16.close4-err")
			verifReach("injected-failure-tolerated")
		} else {
			verifReach("failed-open-injected")
		}
		d, err := Open(opts)
		if err != nil {
			verifNote("err", err)
		}
		verifAssert(err == nil, "C16.lock-kept-by-failed-open")
		verifAssert(d.Close() == nil, "C16.close5-err")
	}
	verifReach("done")
	if verifParam("witness") == 1 {
		verifAssert(false, "witness")
	}
}

// verifHarnessC16Race: two goroutines race to open a fresh directory; never two successful opens alive.
func verifHarnessC16Race() {
	opts := verifOptions(verifDir("db"), "")
	var dbs [2]*DB
	var errs [2]error
	for i := 0; i < 2; i++ {
		i := i
		go func() {
			dbs[i], errs[i] = Open(opts)
		}()
	}
	verifJoin()
	n := 0
	for i := 0; i < 2; i++ {
		if errs[i] == nil {
			n++
		} else {
			verifAssert(errs[i] == ErrDatabaseIsUsing, "C16.race-unexpected-error")
		}
	}
	verifAssert(n == 1, "C16.race-not-exactly-one-winner")
	for i := 0; i < 2; i++ {
		if dbs[i] != nil {
			verifAssert(dbs[i].Close() == nil, "C16.race-close-err")
		}
	}
	c, err := Open(opts)
	verifAssert(err == nil, "C16.race-open-after-close-refused")
	verifAssert(c.Close() == nil, "C16.race-close2-err")
	verifReach("done")
}

// verifHarnessC16CloseRace: Close of the owner races with another Open; whoever wins, a third Open is rejected
// while a handle is open, and accepted once everything is closed.
func verifHarnessC16CloseRace() {
	opts := verifOptions(verifDir("db"), "")
	a, err := Open(opts)
	verifAssert(err == nil, "C16.open-err")
	if verifParam("prefill") == 1 {
		verifAssert(a.Put([]byte("k"), []byte{1}) == nil, "C16.put-err")
	}
	var b *DB
	var berr error
	var tidClose, tidOpen int
	from := verifFSOps()
	go func() { tidClose = verifThreadID(); _ = a.Close() }()
	go func() { tidOpen = verifThreadID(); b, berr = Open(opts) }()
	verifJoin()
	if berr != nil {
		verifAssert(berr == ErrDatabaseIsUsing, "C16.race-unexpected-error")
		verifReach("racing-open-lost")
	} else {
		verifReach("racing-open-won")
		// once the racing Open owns the directory lock, the closing handle is no longer an open database of
		// that directory: it must not touch the directory any more
		lockAt := -1
		for i := from; i < verifFSOps(); i++ {
			if lockAt < 0 && verifFSOpThread(i) == tidOpen && strings.HasPrefix(verifFSOpKind(i), "lock ") {
				lockAt = i
				continue
			}
			if lockAt >= 0 && verifFSOpThread(i) == tidClose {
				verifNote("closing-handle-op-after-new-owner-locked", verifFSOpKind(i))
				verifAssert(false, "C16.two-open-databases-during-close")
			}
		}
		verifAssert(lockAt >= 0, "C16.winner-never-locked")
		c, err := Open(opts)
		verifAssert(err == ErrDatabaseIsUsing && c == nil, "C16.two-open-handles-after-close-race")
		verifAssert(b.Close() == nil, "C16.race-close-err")
	}
	d, err := Open(opts)
	verifAssert(err == nil, "C16.race-open-after-close-refused")
	verifAssert(d.Close() == nil, "C16.race-close2-err")
	verifReach("done")
}
