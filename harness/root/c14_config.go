package xixi_kv

import (
	"github.com/XiXi-2024/xixi-kv/fio"
	"github.com/XiXi-2024/xixi-kv/index"
)

// vOptsB: the second configuration of the relational harness (params b_*).
func vOptsB(a Options, dir string) Options {
	o := a
	o.DirPath = dir
	if v := verifParam("b_index"); v != 0 {
		o.IndexType = index.IndexType(v)
	}
	if v := verifParam("b_shards"); v != 0 {
		o.ShardNum = v
	}
	if v := verifParam("b_io"); v != 0 {
		o.FileIOType = fio.FileIOType(v - 1)
	}
	if v := verifParam("b_sync"); v != 0 {
		o.SyncStrategy = SyncStrategy(v - 1)
		if o.SyncStrategy == Threshold {
			o.BytesPerSync = 40
		}
	}
	if hi := verifParam("b_dfs_hi"); hi != 0 {
		d := int64(verifInt("bdfs"))
		verifAssume(d >= int64(verifParam("b_dfs_lo")))
		verifAssume(d <= int64(hi))
		o.DataFileSize = d
	}
	return o
}

// vSameDump: every observable of the two databases agrees (Get of every pool key, ListKeys, iteration in
// both directions, Stat.KeyNum).
func vSameDump(a, b *DB, kp *vPool, id string) {
	for i := range kp.keys {
		va, ea := a.Get(kp.keys[i])
		vb, eb := b.Get(kp.keys[i])
		verifAssert(ea == eb, id+".get-err-differs")
		verifAssert(len(va) == len(vb), id+".get-len-differs")
		verifAssert(verifBytesEq(va, vb), id+".get-value-differs")
	}
	ka, kb := a.ListKeys(), b.ListKeys()
	verifAssert(len(ka) == len(kb), id+".listkeys-count-differs")
	for i := range ka {
		if i < len(kb) {
			verifAssert(len(ka[i]) == len(kb[i]), id+".listkeys-keylen-differs")
			verifAssert(verifBytesEq(ka[i], kb[i]), id+".listkeys-order-differs")
		}
	}
	for _, rev := range []bool{false, true} {
		ia := a.NewIterator(IteratorOptions{Reverse: rev})
		ib := b.NewIterator(IteratorOptions{Reverse: rev})
		ia.Rewind()
		ib.Rewind()
		for ia.Valid() || ib.Valid() {
			verifAssert(ia.Valid() == ib.Valid(), id+".iter-length-differs")
			if !ia.Valid() || !ib.Valid() {
				break
			}
			verifAssert(len(ia.Key()) == len(ib.Key()), id+".iter-keylen-differs")
			verifAssert(verifBytesEq(ia.Key(), ib.Key()), id+".iter-order-differs")
			ia.Next()
			ib.Next()
		}
		// a partially consumed iterator that is rewound, and one that is repositioned by Seek, must agree too
		ia.Rewind()
		ib.Rewind()
		if ia.Valid() && ib.Valid() {
			ia.Next()
			ib.Next()
		}
		ia.Rewind()
		ib.Rewind()
		for ia.Valid() || ib.Valid() {
			verifAssert(ia.Valid() == ib.Valid(), id+".rewound-iter-length-differs")
			if !ia.Valid() || !ib.Valid() {
				break
			}
			verifAssert(len(ia.Key()) == len(ib.Key()), id+".rewound-iter-keylen-differs")
			verifAssert(verifBytesEq(ia.Key(), ib.Key()), id+".rewound-iter-order-differs")
			ia.Next()
			ib.Next()
		}
		for ti := range kp.keys {
			// (Seek on an exhausted iterator is a no-op, so reposition from a rewound one; every pool key as target)
			ia.Rewind()
			ib.Rewind()
			ia.Seek(kp.keys[ti])
			ib.Seek(kp.keys[ti])
			if ia.Valid() {
				verifReach("seek-positioned")
			}
			for ia.Valid() || ib.Valid() {
				verifAssert(ia.Valid() == ib.Valid(), id+".seek-iter-length-differs")
				if !ia.Valid() || !ib.Valid() {
					break
				}
				verifAssert(len(ia.Key()) == len(ib.Key()), id+".seek-iter-keylen-differs")
				verifAssert(verifBytesEq(ia.Key(), ib.Key()), id+".seek-iter-order-differs")
				ia.Next()
				ib.Next()
			}
		}
		ia.Close()
		ib.Close()
	}
	verifAssert(a.Stat().KeyNum == b.Stat().KeyNum, id+".keynum-differs")
}

// verifHarnessC14: one symbolic operation sequence drives two databases with different configurations in
// lock step; every return value, every iteration order and the recovered mapping must agree pairwise.
func verifHarnessC14() {
	K := verifParam("k")
	var kp *vPool
	if verifParam("conckeys") == 1 {
		// concrete keys: real xxhash placement with large shard counts
		kp = &vPool{keys: [][]byte{[]byte("a"), []byte("kb"), []byte("zc")}, canon: []int{0, 1, 2}}
	} else {
		kp = verifKeyPool(verifParam("pool"), verifParam("klen"))
	}
	oa := verifOptions(verifDir("a"), "")
	ob := vOptsB(oa, verifDir("b"))
	a, err := Open(oa)
	verifAssert(err == nil, "C14.open-a")
	b, err := Open(ob)
	verifAssert(err == nil, "C14.open-b")
	ops := vOpsFromMask(verifParam("ops"))
	for step := 0; step < K; step++ {
		// iterators opened BEFORE the operation and read AFTER it must agree too (snapshot semantics are
		// part of "every return value, every iteration order")
		var ia, ib *Iterator
		if verifParam("iterspan") == 1 {
			ia, ib = a.NewIterator(IteratorOptions{}), b.NewIterator(IteratorOptions{})
		}
		switch ops[verifChoice("op", len(ops))] {
		case vOpPut:
			ki := verifChoice("ki", kp.hot())
			v := verifValue("v")
			verifAssert(a.Put(kp.keys[ki], v) == b.Put(kp.keys[ki], v), "C14.put-result-differs")
		case vOpDelete:
			ki := verifChoice("ki", kp.hot())
			verifAssert(a.Delete(kp.keys[ki]) == b.Delete(kp.keys[ki]), "C14.delete-result-differs")
		case vOpSync:
			verifAssert(a.Sync() == b.Sync(), "C14.sync-result-differs")
		case vOpBatch:
			ba, bb := a.NewBatch(DefaultBatchOptions), b.NewBatch(DefaultBatchOptions)
			n := 1 + verifChoice("bops", 2)
			for i := 0; i < n; i++ {
				ki := verifChoice("bki", kp.hot())
				if verifChoice("bop", 2) == 0 {
					v := verifValue("bv")
					verifAssert(ba.Put(kp.keys[ki], v) == bb.Put(kp.keys[ki], v), "C14.bput-result-differs")
				} else {
					verifAssert(ba.Delete(kp.keys[ki]) == bb.Delete(kp.keys[ki]), "C14.bdelete-result-differs")
				}
				ga, ea := ba.Get(kp.keys[ki])
				gb, eb := bb.Get(kp.keys[ki])
				verifAssert(ea == eb && len(ga) == len(gb), "C14.bget-result-differs")
				verifAssert(verifBytesEq(ga, gb), "C14.bget-value-differs")
			}
			verifAssert(ba.Commit() == bb.Commit(), "C14.commit-result-differs")
			verifReach("batch")
		case vOpRestart:
			verifAssert(a.Close() == b.Close(), "C14.close-result-differs")
			a, err = Open(oa)
			verifAssert(err == nil, "C14.reopen-a")
			b, err = Open(ob)
			verifAssert(err == nil, "C14.reopen-b")
			verifReach("restarted")
		}
		if ia != nil {
			ia.Rewind()
			ib.Rewind()
			for ia.Valid() || ib.Valid() {
				verifAssert(ia.Valid() == ib.Valid(), "C14.spanning-iter-length-differs")
				if !ia.Valid() || !ib.Valid() {
					break
				}
				verifAssert(len(ia.Key()) == len(ib.Key()), "C14.spanning-iter-keylen-differs")
				verifAssert(verifBytesEq(ia.Key(), ib.Key()), "C14.spanning-iter-key-differs")
				va, ea := ia.Value()
				vb, eb := ib.Value()
				verifAssert(ea == eb && len(va) == len(vb), "C14.spanning-iter-value-shape-differs")
				verifAssert(verifBytesEq(va, vb), "C14.spanning-iter-value-differs")
				ia.Next()
				ib.Next()
				verifReach("spanning-iterator")
			}
			ia.Close()
			ib.Close()
		}
		vSameDump(a, b, kp, "C14")
	}
	// recovered mapping agrees too, and for batch-free histories under one file-size limit the data files are byte-identical
	verifAssert(a.Close() == nil && b.Close() == nil, "C14.close-err")
	if verifParam("cmpfiles") == 1 {
		fa, fb := verifFSList(oa.DirPath), verifFSList(ob.DirPath)
		verifAssert(len(fa) == len(fb), "C14.file-count-differs")
		for i := range fa {
			if i < len(fb) {
				da, db := verifFSBytes(fa[i]), verifFSBytes(fb[i])
				verifAssert(len(da) == len(db), "C14.file-size-differs")
				verifAssert(verifBytesEq(da, db), "C14.file-bytes-differ")
			}
		}
		verifReach("files-compared")
	}
	a, err = Open(oa)
	verifAssert(err == nil, "C14.final-open-a")
	b, err = Open(ob)
	verifAssert(err == nil, "C14.final-open-b")
	vSameDump(a, b, kp, "C14.recovered")
	if verifParam("afterclose") == 1 {
		// calls that only consult the in-memory index keep answering alike on handles that were closed
		verifAssert(a.Close() == b.Close(), "C14.final-close-result-differs")
		ka, kb := a.ListKeys(), b.ListKeys()
		verifAssert(len(ka) == len(kb), "C14.closed-listkeys-count-differs")
		for i := range ka {
			if i < len(kb) {
				verifAssert(len(ka[i]) == len(kb[i]) && verifBytesEq(ka[i], kb[i]), "C14.closed-listkeys-differs")
			}
		}
		verifAssert(a.Stat().KeyNum == b.Stat().KeyNum, "C14.closed-keynum-differs")
		verifReach("closed-handles-compared")
	}
	verifReach("done")
	if verifParam("witness") == 1 {
		verifAssert(false, "witness")
	}
}
