package xixi_kv

// verifHarnessC10: iterator / ListKeys / Fold snapshot semantics over a symbolic key set.
func verifHarnessC10() {
	L := verifParam("calls")
	kp := verifKeyPool(verifParam("pool"), verifParam("klen"))
	opts := verifOptions(verifDir("db"), "")
	db, err := Open(opts)
	verifAssert(err == nil, "C10.open-err")
	m := newVModel(len(kp.keys))
	for i := range kp.keys {
		if i >= kp.hot() {
			// crowd keys: always present, never touched again
			v := []byte{byte(i)}
			verifAssert(db.Put(kp.keys[i], v) == nil, "C10.put-err")
			m.put(i, v)
			continue
		}
		switch verifChoice("setup", 3) {
		case 1:
			v := verifBytes("v", 1)
			verifAssert(db.Put(kp.keys[i], v) == nil, "C10.put-err")
			m.put(i, v)
		case 2:
			v := verifBytes("v", 1)
			verifAssert(db.Put(kp.keys[i], v) == nil, "C10.put-err")
			verifAssert(db.Delete(kp.keys[i]) == nil, "C10.delete-err")
		}
	}
	var prefix []byte
	if verifParam("prefix") == 1 && verifChoice("use-prefix", 2) == 1 {
		prefix = verifBytes("prefix", 1)
	}
	reverse := verifParam("reverse") == 1
	it := db.NewIterator(IteratorOptions{Prefix: prefix, Reverse: reverse})
	snap := m.clone()
	// expected iteration sequence: present keys with the prefix, ascending (descending when reversed)
	asc := snap.sortedPresent(kp)
	var exp []int
	for _, c := range asc {
		k := kp.keys[c]
		if len(prefix) > 0 {
			if len(k) < len(prefix) {
				continue
			}
			if !verifBytesEq(k[:len(prefix)], prefix) {
				continue
			}
		}
		exp = append(exp, c)
	}
	if reverse {
		for i, j := 0, len(exp)-1; i < j; i, j = i+1, j-1 {
			exp[i], exp[j] = exp[j], exp[i]
		}
	}
	if len(exp) >= 2 {
		verifReach("two-or-more")
	}
	// writes after creation must not disturb the iterator
	if verifParam("latewrites") == 1 {
		switch verifChoice("late", 3) {
		case 1:
			ki := verifChoice("late-ki", kp.hot())
			v := verifBytes("late-v", 1)
			verifAssert(db.Put(kp.keys[ki], v) == nil, "C10.late-put-err")
			m.put(ki, v)
			verifReach("late-write")
		case 2:
			ki := verifChoice("late-ki", kp.hot())
			verifAssert(db.Delete(kp.keys[ki]) == nil, "C10.late-delete-err")
			m.del(ki)
			verifReach("late-write")
		}
	}
	pos := 0
	check := func(id string) {
		valid := it.Valid()
		verifAssert(valid == (pos < len(exp)), id+".valid")
		if valid && pos < len(exp) {
			c := exp[pos]
			k := it.Key()
			verifAssert(len(k) == len(kp.keys[c]), id+".keylen")
			verifAssert(verifBytesEq(k, kp.keys[c]), id+".key")
			v, err := it.Value()
			verifAssert(err == nil, id+".value-err")
			verifAssert(len(v) == len(snap.val[c]), id+".value-len")
			verifAssert(verifBytesEq(v, snap.val[c]), id+".value")
			// the caller does with the returned slices what callers do: builds derived keys/values by appending
			// (the snapshot's other keys and values must not live in their spare capacity)
			_ = append(k, '/', 0xEE)
			_ = append(v, 0xEE, 0xEE)
		}
	}
	seek := func() {
		var t []byte
		if verifParam("ckeys") > 0 && verifChoice("tpool", 2) == 1 {
			// concrete key families: the target is one of the (long) pool keys itself
			t = kp.keys[verifChoice("tki", kp.hot())]
		} else {
			tl := verifChoice("tlen", 3) // 0, 1 or 2 bytes: the empty target is below every key
			t = verifBytes("target", tl)
			if tl == 0 && verifChoice("nil-target", 2) == 1 {
				t = nil
			}
		}
		// the property's own restriction: the target lies at or ahead of the cursor in iteration order
		if pos < len(exp) && pos > 0 {
			cur := kp.keys[exp[pos]]
			if reverse {
				verifAssume(verifNot(verifBytesLess(cur, t))) // t <= cur
			} else {
				verifAssume(verifNot(verifBytesLess(t, cur))) // t >= cur
			}
		}
		it.Seek(t)
		// expected: first key at or after the target in iteration order
		np := pos
		for np < len(exp) {
			k := kp.keys[exp[np]]
			var before bool
			if reverse {
				before = verifBytesLess(t, k) // k > t: still before the target
			} else {
				before = verifBytesLess(k, t)
			}
			if !before {
				break
			}
			np++
		}
		pos = np
		verifReach("seek")
	}
	for c := 0; c < L; c++ {
		n := 3
		if c == 0 {
			n = 2 // protocol: the first positioning call is Rewind or Seek
		}
		switch verifChoice("call", n) {
		case 0:
			it.Rewind()
			pos = 0
			if c > 0 {
				verifReach("rewind-later")
			}
		case 1:
			if pos >= len(exp) && c > 0 {
				// exhausted: every key has been passed, a Seek is outside the claim
				verifAssume(false)
			}
			seek()
		case 2:
			it.Next()
			if pos < len(exp) {
				pos++
			}
		}
		check("C10.iter")
	}
	it.Close()
	verifSameMapping(db, kp, m, "C10.snapshot")
	verifReach("done")
	if verifParam("witness") == 1 {
		verifAssert(false, "witness")
	}
}
