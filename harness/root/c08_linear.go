package xixi_kv

type vHistOp struct {
	kind      int // 0 put, 1 delete, 2 get
	ki        int
	val       []byte // put: written value; get: returned value
	found     bool   // get
	err       error
	call, ret int
	batch     bool // put issued through a one-record batch
}

// vLinearizable: is there a total order of the completed operations that respects real time (a returned before
// b was called => a before b) and in which every Get returns what a register per key would hold?
// Found flags are concrete on a path, values are symbolic: the result is one Bool term.
func vLinearizable(ops []*vHistOp, nkeys int) bool {
	n := len(ops)
	used := make([]bool, n)
	order := make([]int, 0, n)
	result := false
	var rec func()
	rec = func() {
		if len(order) == n {
			// simulate
			has := make([]bool, nkeys)
			val := make([][]byte, nkeys)
			ok := true
			for _, i := range order {
				o := ops[i]
				switch o.kind {
				case 0:
					has[o.ki], val[o.ki] = true, o.val
				case 1:
					has[o.ki], val[o.ki] = false, nil
				case 2:
					if o.found != has[o.ki] {
						return
					}
					if o.found {
						if len(o.val) != len(val[o.ki]) {
							return
						}
						ok = verifAnd(ok, verifBytesEq(o.val, val[o.ki]))
					}
				}
			}
			result = verifOr(result, ok)
			return
		}
		for i := 0; i < n; i++ {
			if used[i] {
				continue
			}
			// i may come next only if no unused op returned before i was called
			okNext := true
			for j := 0; j < n; j++ {
				if j != i && !used[j] && ops[j].ret < ops[i].call {
					okNext = false
					break
				}
			}
			if !okNext {
				continue
			}
			used[i] = true
			order = append(order, i)
			rec()
			order = order[:len(order)-1]
			used[i] = false
		}
	}
	rec()
	return result
}

// verifHarnessC08: T goroutines issue Put/Delete/Get on overlapping keys under every schedule within the
// preemption bound; the history is linearizable and, once quiescent, the live view equals the restart view.
func verifHarnessC08() {
	T := verifParam("threads")
	N := verifParam("opsper")
	kp := verifKeyPool(verifParam("pool"), 1)
	opts := verifOptions(verifDir("db"), "")
	db, err := Open(opts)
	verifAssert(err == nil, "C08.open-err")
	if verifParam("preput") == 1 {
		verifAssert(db.Put(kp.keys[0], []byte{0xee}) == nil, "C08.preput-err")
	}
	// preput 2: EVERY pool key is pre-written with a value long enough that each record sits in its own
	// (scaled) block, so concurrent Gets of different keys read different blocks of one file
	var prevals [][]byte
	if verifParam("preput") == 2 {
		for i := range kp.keys {
			v := make([]byte, 14)
			for j := range v {
				v[j] = byte(0xe0 + i)
			}
			verifAssert(db.Put(kp.keys[i], v) == nil, "C08.preput-err")
			prevals = append(prevals, v)
		}
	}
	// plans are drawn before the threads start
	plans := make([][]*vHistOp, T)
	for t := 0; t < T; t++ {
		for i := 0; i < N; i++ {
			nk := 3
			if verifParam("onlyput") == 1 {
				nk = 1
			}
			o := &vHistOp{kind: 2}
			if verifParam("onlyget") != 1 {
				o.kind = verifChoice("kind", nk)
			}
			o.ki = verifChoice("ki", kp.hot())
			if verifParam("withbatch") == 1 && o.kind == 0 && verifChoice("as-batch", 2) == 1 {
				o.batch = true // the put is issued as a one-record batch + Commit (a register write all the same)
			}
			if o.kind == 0 {
				o.val = verifBytes("val", 1)
			}
			plans[t] = append(plans[t], o)
		}
	}
	var hist []*vHistOp
	if verifParam("preput") == 1 {
		hist = append(hist, &vHistOp{kind: 0, ki: 0, val: []byte{0xee}, call: -2, ret: -1})
	}
	for i, v := range prevals {
		hist = append(hist, &vHistOp{kind: 0, ki: i, val: v, call: -2*len(prevals) + 2*i - 2, ret: -2*len(prevals) + 2*i - 1})
	}
	for t := 0; t < T; t++ {
		plan := plans[t]
		go func() {
			for _, o := range plan {
				o.call = verifTick()
				switch o.kind {
				case 0:
					if o.batch {
						b := db.NewBatch(DefaultBatchOptions)
						o.err = b.Put(kp.keys[o.ki], o.val)
						if o.err == nil {
							o.err = b.Commit()
						}
						break
					}
					o.err = db.Put(kp.keys[o.ki], o.val)
				case 1:
					o.err = db.Delete(kp.keys[o.ki])
				case 2:
					v, err := db.Get(kp.keys[o.ki])
					o.val, o.found = v, err == nil
					if err != ErrKeyNotFound {
						o.err = err
					}
				}
				o.ret = verifTick()
			}
		}()
	}
	if verifParam("merge") == 1 {
		go func() {
			_ = db.Merge()
		}()
	}
	verifJoin()
	for t := 0; t < T; t++ {
		for _, o := range plans[t] {
			if o.err != nil {
				verifNote("op-error", o.err)
			}
			verifAssert(o.err == nil, "C08.valid-operation-returned-error")
			hist = append(hist, o)
		}
	}
	verifAssert(vLinearizable(hist, len(kp.keys)), "C08.not-linearizable")
	// quiescent: the live mapping is the mapping a restart recovers
	d1 := vDump(db, kp)
	verifAssert(db.Close() == nil, "C08.close-err")
	db2, err := Open(opts)
	verifAssert(err == nil, "C08.reopen-err")
	d2 := vDump(db2, kp)
	same := true
	for i := range d1.found {
		if d1.found[i] != d2.found[i] || len(d1.vals[i]) != len(d2.vals[i]) {
			same = false
			break
		}
		same = verifAnd(same, verifBytesEq(d1.vals[i], d2.vals[i]))
	}
	verifAssert(same, "C08.live-view-differs-from-restart-view")
	verifReach("done")
	if verifParam("witness") == 1 {
		verifAssert(false, "witness")
	}
}
