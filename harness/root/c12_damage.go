package xixi_kv

import "strings"

// verifHarnessC12: single-site damage of a file produced by the real writer. Damage variables are named dmg_*.
// After the damage every operation either still returns the originally written value or fails with an error;
// nothing panics and no value is attributed to another key.
func verifHarnessC12() {
	kp := verifKeyPool(verifParam("pool"), verifParam("klen"))
	opts := verifOptions(verifDir("db"), "")
	db, err := Open(opts)
	verifAssert(err == nil, "C12.open-err")
	m := newVModel(len(kp.keys))
	ops := vOpsFromMask(verifParam("ops"))
	// every state the history went through: a truncated log legitimately rolls back to an earlier one,
	// so "served as data" means "some value that was once written for that key"
	var hist []*vModel
	for step := 0; step < verifParam("k"); step++ {
		db = vStep(db, opts, kp, m, ops, "C12")
		hist = append(hist, m.clone())
	}
	everWritten := func(i int, v []byte) bool {
		ok := false
		for _, h := range hist {
			if h.has[i] && len(h.val[i]) == len(v) {
				ok = verifOr(ok, verifBytesEq(v, h.val[i]))
			}
		}
		return ok
	}
	if verifParam("merge") == 1 {
		verifAssert(db.Merge() == nil, "C12.merge-err")
		verifReach("merged")
	}
	live := verifParam("live") == 1
	if !live {
		verifAssert(db.Close() == nil, "C12.close-err")
	}
	// (live: the damage happens UNDER the open database - its cached file sizes and pooled buffers are stale now)
	// pick a victim file (data files, hint file, files of a finished merge awaiting adoption)
	var victims []string
	for _, d := range []string{opts.DirPath, opts.DirPath + "-merge"} {
		for _, p := range verifFSList(d) {
			if !strings.HasSuffix(p, ".lock") && verifFSLen(p) > 0 {
				victims = append(victims, p)
			}
		}
	}
	verifAssume(len(victims) > 0)
	victim := victims[verifChoice("victim", len(victims))]
	size := int(verifFSLen(victim))
	switch verifChoice("damage", 3) {
	case 0: // flip bits of one byte
		pos := verifInt("dmg_pos")
		verifAssume(pos >= 0)
		verifAssume(pos < size)
		mask := verifU8("dmg_mask")
		verifAssume(mask != 0)
		old := verifFSBytes(victim)
		p := verifConcInt(pos)
		verifCorrupt(victim, p, old[p]^mask)
		verifReach("bit-flip")
	case 1: // truncate
		nl := verifInt("dmg_len")
		verifAssume(nl >= 0)
		verifAssume(nl < size)
		verifFSTruncate(victim, nl)
		verifReach("truncated")
	case 2: // replace a block-aligned range by garbage
		bs := verifParam("blocksize")
		nb := (size + bs - 1) / bs
		b := verifChoice("dmg_block", nb)
		old := verifFSBytes(victim)
		end := (b + 1) * bs
		if end > size {
			end = size
		}
		g := verifBytes("dmg_garbage", end-b*bs)
		for i := b * bs; i < end; i++ {
			verifCorrupt(victim, i, g[i-b*bs])
		}
		_ = old
		verifReach("block-garbage")
	}
	if strings.HasSuffix(victim, ".hint") {
		verifReach("hint-damaged")
	}
	db2 := db
	if live {
		verifReach("damaged-while-open")
	} else {
		db2, err = Open(opts)
		if err != nil {
			verifReach("open-detected")
			return
		}
		verifReach("open-accepted")
	}
	for i := range kp.keys {
		v, err := db2.Get(kp.keys[i])
		if err != nil {
			if m.has[i] {
				verifReach("get-detected")
			}
			continue
		}
		// a value is served: it must be a value that was written for this key
		verifAssert(everWritten(i, v), "C12.served-value-never-written-for-key")
		if m.has[i] && len(v) == len(m.val[i]) {
			verifReach("value-served")
		}
	}
	_ = db2.Fold(func(k, v []byte) bool {
		ok := false
		for i := range kp.keys {
			if len(k) == len(kp.keys[i]) {
				ok = verifOr(ok, verifAnd(verifBytesEq(k, kp.keys[i]), everWritten(i, v)))
			}
		}
		verifAssert(ok, "C12.fold-pair-not-original")
		return true
	})
	for _, k := range db2.ListKeys() {
		ok := false
		for i := range kp.keys {
			if len(k) == len(kp.keys[i]) {
				ok = verifOr(ok, verifBytesEq(k, kp.keys[i]))
			}
		}
		verifAssert(ok, "C12.listed-key-never-written")
	}
	verifReach("done")
	if verifParam("witness") == 1 {
		verifAssert(false, "witness")
	}
}
