package xixi_kv

import "sync"

// API calls of the C09 alphabet (param pairs choose two of them).
const (
	aPut = iota
	aGet
	aDelete
	aListKeys
	aFold
	aIterate
	aStat
	aSync
	aBatch
	aMerge
	aNum
)

func vCall(db *DB, kp *vPool, call int, who int) error {
	k := kp.keys[0]
	switch call {
	case aPut:
		return db.Put(k, []byte{byte(10 + who)})
	case aGet:
		_, err := db.Get(k)
		if err == ErrKeyNotFound {
			return nil
		}
		return err
	case aDelete:
		return db.Delete(k)
	case aListKeys:
		_ = db.ListKeys()
	case aFold:
		return db.Fold(func(k, v []byte) bool { return true })
	case aIterate:
		it := db.NewIterator(IteratorOptions{})
		for it.Rewind(); it.Valid(); it.Next() {
			_ = it.Key()
		}
		it.Close()
	case aStat:
		_ = db.Stat()
	case aSync:
		return db.Sync()
	case aBatch:
		b := db.NewBatch(DefaultBatchOptions)
		if err := b.Put(kp.keys[len(kp.keys)-1], []byte{byte(20 + who)}); err != nil {
			return err
		}
		return b.Commit()
	case aMerge:
		err := db.Merge()
		if err == ErrMergeIsProgress {
			return nil
		}
		return err
	}
	return nil
}

// verifHarnessC09: two (three) concurrent API calls on a pre-populated database under every schedule within the
// preemption bound: no panic, no deadlock, no error for individually valid operations, no data race
// (happens-before check over each explored schedule; sync/atomic vs plain access to one word is a conflict).
func verifHarnessC09() {
	kp := verifKeyPool(2, 1)
	opts := verifOptions(verifDir("db"), "")
	db, err := Open(opts)
	verifAssert(err == nil, "C09.open-err")
	verifAssert(db.Put(kp.keys[0], []byte{1}) == nil, "C09.preput-err")
	verifAssert(db.Put(kp.keys[1], []byte{2}) == nil, "C09.preput2-err")
	if verifParam("adopted") == 1 {
		// the concurrent calls hit files that came from an ADOPTED merge (indexed through the hint file, not yet
		// read by anybody in this session)
		verifAssert(db.Merge() == nil, "C09.merge-err")
		verifAssert(db.Close() == nil, "C09.close0-err")
		db, err = Open(opts)
		verifAssert(err == nil, "C09.reopen-err")
		verifReach("adopted-merge")
	}
	calls := []int{verifParam("call0"), verifParam("call1")}
	if verifParam("call2") > 0 {
		calls = append(calls, verifParam("call2")-1)
	}
	errs := make([]error, len(calls))
	var wg sync.WaitGroup
	for i, c := range calls {
		i, c := i, c
		wg.Add(1)
		go func() {
			defer wg.Done()
			errs[i] = vCall(db, kp, c, i)
		}()
	}
	wg.Wait()
	for i := range errs {
		if errs[i] != nil {
			verifNote("error", errs[i])
		}
		verifAssert(errs[i] == nil, "C09.valid-operation-returned-error")
	}
	// the database is still consistent and usable
	_ = db.ListKeys()
	verifAssert(db.Close() == nil, "C09.close-err")
	verifReach("done")
	if verifParam("witness") == 1 {
		verifAssert(false, "witness")
	}
}
