package xixi_kv

import (
	"github.com/XiXi-2024/xixi-kv/fio"
	"github.com/XiXi-2024/xixi-kv/index"
)

// verifReaderOptions: the configuration the directory is reopened with (params r_index, r_shards, r_io,
// r_dfs_lo/hi), chosen independently of the writer's.
func verifReaderOptions(w Options) Options {
	o := w
	if v := verifParam("r_index"); v != 0 {
		o.IndexType = index.IndexType(v)
	}
	if v := verifParam("r_shards"); v != 0 {
		o.ShardNum = v
	}
	if verifParam("r_io") != 0 {
		o.FileIOType = fio.FileIOType(verifParam("r_io") - 1)
	}
	if hi := verifParam("r_dfs_hi"); hi != 0 {
		d := int64(verifInt("rdfs"))
		verifAssume(d >= int64(verifParam("r_dfs_lo")))
		verifAssume(d <= int64(hi))
		o.DataFileSize = d
	}
	return o
}

// verifHarnessC02: K ops, clean Close, Open with the reader configuration: same mapping, Open must not fail
// or panic; then K2 more ops under the reader configuration and a second restart with the writer's.
func verifHarnessC02() {
	K := verifParam("k")
	K2 := verifParam("k2")
	kp := verifKeyPool(verifParam("pool"), verifParam("klen"))
	wopts := verifOptions(verifDir("db"), "")
	ropts := verifReaderOptions(wopts)
	if verifParam("spelling") == 2 {
		// a directory name with pattern metacharacters (taken literally by everything the engine does with it)
		wopts.DirPath = verifDir("db[1]*?")
		ropts.DirPath = wopts.DirPath
	}
	if verifParam("spelling") == 1 {
		// the same directory under two spellings: with a trailing separator for the first and third session,
		// without for the second (merge directories, lock files ... must be the same ones)
		wopts.DirPath += "/"
	}
	db, err := Open(wopts)
	verifAssert(err == nil, "C02.open-err")
	m := newVModel(len(kp.keys))
	ops := vOpsFromMask(verifParam("ops"))
	vPrefill(db, kp, m, "C02")
	for step := 0; step < K; step++ {
		db = vStep(db, wopts, kp, m, ops, "C02")
	}
	if len(db.olderFiles) > 0 {
		verifReach("rotated")
	}
	verifSameMapping(db, kp, m, "C02.before-close")
	verifAssert(db.Close() == nil, "C02.close-err")
	db, err = Open(ropts)
	if err != nil {
		verifNote("reopen-err", err)
	}
	verifAssert(err == nil, "C02.reopen-err")
	verifSameMapping(db, kp, m, "C02.after-restart")
	verifReach("restarted")
	if K2 > 0 {
		for step := 0; step < K2; step++ {
			db = vStep(db, ropts, kp, m, ops, "C02")
		}
		verifSameMapping(db, kp, m, "C02.before-close2")
		verifAssert(db.Close() == nil, "C02.close2-err")
		if verifParam("spelling") == 1 {
			// one more session under the second spelling (it adopts whatever that session merged) before the first
			// spelling comes back
			db, err = Open(ropts)
			verifAssert(err == nil, "C02.reopen-same-spelling-err")
			verifSameMapping(db, kp, m, "C02.after-restart-same-spelling")
			verifAssert(db.Close() == nil, "C02.close-same-spelling-err")
		}
		db, err = Open(wopts)
		verifAssert(err == nil, "C02.reopen2-err")
		verifSameMapping(db, kp, m, "C02.after-restart2")
		verifReach("restarted-twice")
	}
	verifAssert(db.Close() == nil, "C02.final-close-err")
	verifReach("done")
	if verifParam("witness") == 1 {
		verifAssert(false, "witness")
	}
}
