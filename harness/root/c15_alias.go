package xixi_kv

// vSymModel: last-write-wins map whose keys are symbolic byte strings that may or may not be equal
// (equality decided by the solver at each lookup). Keeps private copies of everything.
type vSymEntry struct {
	key, val []byte
	present  bool
}
type vSymModel struct{ ents []*vSymEntry }

func vcopy(b []byte) []byte { return append([]byte{}, b...) }

func (m *vSymModel) find(k []byte) *vSymEntry {
	for _, e := range m.ents {
		if len(e.key) == len(k) {
			if verifBytesEq(e.key, k) {
				return e
			}
		}
	}
	return nil
}
func (m *vSymModel) put(k, v []byte) {
	if e := m.find(k); e != nil {
		e.val, e.present = vcopy(v), true
		return
	}
	m.ents = append(m.ents, &vSymEntry{key: vcopy(k), val: vcopy(v), present: true})
}
func (m *vSymModel) del(k []byte) {
	if e := m.find(k); e != nil {
		e.val, e.present = nil, false
	}
}
func (m *vSymModel) check(db *DB, id string) {
	n := 0
	for _, e := range m.ents {
		v, err := db.Get(vcopy(e.key))
		if e.present {
			n++
			verifAssert(err == nil, id+".get-missing")
			verifAssert(len(v) == len(e.val), id+".get-len")
			verifAssert(verifBytesEq(v, e.val), id+".get-value")
		} else {
			verifAssert(err == ErrKeyNotFound, id+".get-phantom")
		}
	}
	verifAssert(db.Stat().KeyNum == n, id+".keynum")
	keys := db.ListKeys()
	verifAssert(len(keys) == n, id+".listkeys-count")
	for _, k := range keys {
		e := m.find(k)
		verifAssert(e != nil && e.present, id+".listkeys-unknown-key")
	}
}

// verifHarnessC15: the caller owns ONE key buffer and ONE value buffer, reuses them for every call and
// scribbles over both after each return. Returned Get slices are kept and must never change.
func verifHarnessC15() {
	K := verifParam("k")
	opts := verifOptions(verifDir("db"), "")
	db, err := Open(opts)
	verifAssert(err == nil, "C15.open-err")
	m := &vSymModel{}
	kb := make([]byte, 2)
	// bigv: the value buffer is longer than a (scaled) block, so a kept Get result may be a multi-chunk value
	// that was reassembled in a pooled buffer
	bigv := verifParam("bigv")
	vb := make([]byte, 3)
	if bigv > 3 {
		vb = make([]byte, bigv)
	}
	type kept struct{ got, want []byte }
	var returned []kept
	for step := 0; step < K; step++ {
		verifFill(kb, "k")
		verifFill(vb, "v")
		kl := 1 + verifChoice("kl", 2)
		vl := 2 * verifChoice("vl", 2)
		if bigv > 3 && verifChoice("vbig", 2) == 1 {
			vl = bigv
		}
		key, val := kb[:kl], vb[:vl]
		nops := 4
		if verifParam("nobatch") == 1 {
			nops = 3
		}
		switch verifChoice("op", nops) {
		case 0:
			verifAssert(db.Put(key, val) == nil, "C15.put-err")
			m.put(key, val)
		case 1:
			verifAssert(db.Delete(key) == nil, "C15.delete-err")
			m.del(key)
		case 2:
			v, err := db.Get(key)
			if e := m.find(key); e != nil && e.present {
				verifAssert(err == nil && len(v) == len(e.val), "C15.get-shape")
				verifAssert(verifBytesEq(v, e.val), "C15.get-value")
				returned = append(returned, kept{v, vcopy(v)})
				verifReach("get-kept")
			}
		case 3:
			// batch: repeated Put on one key (second value from the same reused buffer), optional Delete of another
			b := db.NewBatch(DefaultBatchOptions)
			verifAssert(b.Put(key, val) == nil, "C15.bput-err")
			first := vcopy(val)
			_ = first
			k0 := vcopy(key)
			verifFill(vb, "v2")
			vl2 := 1 + 2*verifChoice("vl2", 2)
			verifAssert(b.Put(key, vb[:vl2]) == nil, "C15.bput2-err")
			v2 := vcopy(vb[:vl2])
			verifFill(vb, "scribble-in-batch")
			if verifChoice("bdel", 2) == 1 {
				verifFill(kb, "dk")
				dk := vcopy(kb[:kl])
				verifAssert(b.Delete(kb[:kl]) == nil, "C15.bdel-err")
				verifFill(kb, "scribble-in-batch-k")
				verifAssert(b.Commit() == nil, "C15.bcommit-err")
				m.put(k0, v2)
				m.del(dk)
			} else {
				verifFill(kb, "scribble-in-batch-k")
				verifAssert(b.Commit() == nil, "C15.bcommit-err")
				m.put(k0, v2)
			}
			verifReach("batch")
		}
		// the caller scribbles over its buffers
		verifFill(kb, "sk")
		verifFill(vb, "sv")
		shadowK, shadowV := vcopy(kb), vcopy(vb)
		m.check(db, "C15.model")
		verifAssert(verifAnd(verifBytesEq(kb, shadowK), verifBytesEq(vb, shadowV)), "C15.caller-buffer-modified")
		for _, r := range returned {
			verifAssert(verifBytesEq(r.got, r.want), "C15.returned-slice-changed")
		}
	}
	verifReach("done")
	if verifParam("witness") == 1 {
		verifAssert(false, "witness")
	}
}
