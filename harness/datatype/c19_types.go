package datatype

import (
	"github.com/XiXi-2024/xixi-kv/utils"
	"time"

	bitcask "github.com/XiXi-2024/xixi-kv"
	"github.com/XiXi-2024/xixi-kv/fio"
	"github.com/XiXi-2024/xixi-kv/index"
)

// reference model: abstract types over a small key space; fields/members are pool indices
type vKind int

const (
	vNone vKind = iota
	vString
	vHash
	vSet
	vList
	vZSet
)

type vKey struct {
	kind   vKind
	str    []byte
	expire int // step at which the string expires (0 = never): expired iff now >= expire
	hash   map[int][]byte
	set    map[int]bool
	list   [][]byte
	zset   map[int]float64
}

var vTypeCode = map[vKind]byte{vString: String, vHash: Hash, vSet: Set, vList: List, vZSet: ZSet}

func vcp(b []byte) []byte { return append([]byte{}, b...) }

// verifHarnessC19: command sequences over a small key space mixing all five types, deletions, re-creation with
// another type, expiry and restarts; every reply equals the reference model's.
// vOneBuf: (param onebuf) the command's arguments are sub-slices of ONE request buffer, each followed directly by the
// next (so every argument has spare capacity that holds another argument); returns the sub-slices and a checker
// that the request bytes are unchanged after the call.
func vOneBuf(args ...[]byte) ([][]byte, func(id string)) {
	if verifParam("onebuf") != 1 {
		return args, func(string) {}
	}
	var req []byte
	for _, a := range args {
		req = append(req, a...)
	}
	req = append(req, 0xC3, 0xC3, 0xC3, 0xC3, 0xC3, 0xC3, 0xC3, 0xC3) // more of the caller's memory behind the request
	shadow := append([]byte{}, req...)
	out := make([][]byte, len(args))
	off := 0
	for i, a := range args {
		out[i] = req[off : off+len(a)]
		off += len(a)
	}
	return out, func(id string) {
		verifAssert(verifBytesEq(req, shadow), id+".request-buffer-modified")
	}
}

// vVal19 draws a command argument value: 1 byte, or (param vlen0) 0 or 1 bytes.
func vVal19(name string) []byte {
	if verifParam("vlen0") == 1 && verifChoice(name+"-empty", 2) == 1 {
		return verifBytes(name, 0)
	}
	return verifBytes(name, 1)
}

// vZsetAliased: the member's own index key (key|version|member) coincides with the SCORE index key of another member
// that is in the sorted set (key|version|score text|other member|len4(other member)) - known finding
// KF-C19-zset-member-key-aliases-score-key: the two key spaces of a sorted set are not separated.
func vZsetAliased(s *vKey, elems [][]byte, f int) bool {
	hit := false
	for g, sc := range s.zset {
		if g == f {
			continue
		}
		crafted := append([]byte{}, utils.Float64ToBytes(sc)...)
		crafted = append(crafted, elems[g]...)
		n := len(elems[g])
		crafted = append(crafted, byte(n), byte(n>>8), byte(n>>16), byte(n>>24))
		if len(crafted) == len(elems[f]) {
			hit = verifOr(hit, verifBytesEq(crafted, elems[f]))
		}
	}
	return hit
}

func verifHarnessC19() {
	K := verifParam("k")
	nk := verifParam("keys")
	keys := make([][]byte, nk)
	for i := range keys {
		if i == 1 && verifParam("longkey") > 0 {
			keys[i] = verifBytes("key", verifParam("longkey")) // a second user key of arbitrary bytes
			continue
		}
		keys[i] = verifBytes("key", 1)
		for j := 0; j < i; j++ {
			verifAssume(verifBytesLess(keys[j], keys[i]))
		}
	}
	elems := make([][]byte, 2)
	for i := range elems {
		if i == 0 && verifParam("elen0") == 1 {
			elems[i] = verifBytes("elem", 0) // the empty field / member name is a name like any other
			continue
		}
		if i == 1 && verifParam("longmember") == 1 {
			// a 6-byte member with arbitrary content (NUL bytes, digits ...): names are data, any bytes are a name
			elems[i] = verifBytes("elem", 6)
			continue
		}
		elems[i] = verifBytes("elem", 1)
	}
	verifAssume(verifBytesLess(elems[0], elems[1]))
	opts := bitcask.Options{DirPath: verifDir("dt"), DataFileSize: 1 << 20, IndexType: index.IndexType(verifParam("index")), ShardNum: 1,
		FileIOType: fio.StandardFIO}
	if opts.IndexType == 0 {
		opts.IndexType = index.HashMap
	}
	dts, err := NewDataTypeService(opts)
	verifAssert(err == nil, "C19.open-err")
	st := make([]*vKey, nk)
	for i := range st {
		st[i] = &vKey{}
	}
	cmds := vCmdsFromMask(verifParam("cmds"))
	scores := []float64{-1.5, 0, 2}
	if verifParam("scoreset") == 1 {
		// scores that are different but very close, tiny, huge, and signed zero: an update must store exactly what was given
		scores = []float64{1, 1.000000000001, 1e-10, 2e-10, -1e300, 1e300}
	}
	now := 0 // logical step; the engine clock advances 1 ms per step
	for step := 0; step < K; step++ {
		verifClockStep(false)
		now++
		ki := verifChoice("ki", nk)
		key, s := keys[ki], st[ki]
		if s.kind == vString && s.expire != 0 && now >= s.expire {
			// an expired string is absent for every command
			st[ki] = &vKey{}
			s = st[ki]
			verifReach("expired")
		}
		wrong := func(k vKind) bool { return s.kind != vNone && s.kind != k }
		switch cmds[verifChoice("cmd", len(cmds))] {
		case cSet:
			v := vVal19("v")
			nttl := 3
			if verifParam("negttl") == 1 {
				nttl = 4
			}
			ttlSteps := verifChoice("ttl", nttl) // 0 = none, 1 = expires at the next step, 2 = far away, 3 = NEGATIVE (already past)
			var ttl time.Duration
			exp := 0
			switch ttlSteps {
			case 1:
				ttl, exp = time.Millisecond, now+1
			case 2:
				ttl, exp = time.Hour, now+3600000
			case 3:
				ttl, exp = -time.Second, now // a deadline in the past: absent from the next command on
			}
			verifAssert(dts.Set(key, v, ttl) == nil, "C19.set-err")
			st[ki] = &vKey{kind: vString, str: vcp(v), expire: exp}
		case cGet:
			v, err := dts.Get(key)
			switch {
			case s.kind == vNone:
				verifAssert(v == nil && (err == nil || err == bitcask.ErrKeyNotFound), "C19.get-absent")
			case s.kind != vString:
				verifAssert(err == ErrWrongTypeOperation, "C19.get-wrongtype")
			default:
				verifAssert(err == nil && len(v) == len(s.str), "C19.get-shape")
				verifAssert(verifBytesEq(v, s.str), "C19.get-value")
			}
		case cDel:
			verifAssert(dts.Del(key) == nil, "C19.del-err")
			st[ki] = &vKey{}
		case cType:
			t, err := dts.Type(key)
			if s.kind == vNone {
				verifAssert(err != nil, "C19.type-of-absent-key")
			} else {
				verifAssert(err == nil && t == vTypeCode[s.kind], "C19.type-reply")
			}
		case cHSet:
			f := verifChoice("fi", 2)
			v := vVal19("hv")
			hargs, unchanged := vOneBuf(key, elems[f], v)
			isNew, err := dts.HSet(hargs[0], hargs[1], hargs[2])
			unchanged("C19.hset")
			if wrong(vHash) {
				verifAssert(err == ErrWrongTypeOperation, "C19.hset-wrongtype")
				break
			}
			if s.kind == vNone {
				s.kind, s.hash = vHash, map[int][]byte{}
			}
			_, had := s.hash[f]
			verifAssert(err == nil && isNew == !had, "C19.hset-reply")
			s.hash[f] = vcp(v)
		case cHGet:
			f := verifChoice("fi", 2)
			gargs, unchanged := vOneBuf(key, elems[f])
			v, err := dts.HGet(gargs[0], gargs[1])
			unchanged("C19.hget")
			if wrong(vHash) {
				verifAssert(err == ErrWrongTypeOperation, "C19.hget-wrongtype")
				break
			}
			want, had := s.hash[f]
			if !had {
				verifAssert(v == nil && (err == nil || err == bitcask.ErrKeyNotFound), "C19.hget-absent")
			} else {
				verifAssert(err == nil && len(v) == len(want), "C19.hget-shape")
				verifAssert(verifBytesEq(v, want), "C19.hget-value")
			}
		case cHDel:
			f := verifChoice("fi", 2)
			ok, err := dts.HDel(key, elems[f])
			if wrong(vHash) {
				verifAssert(err == ErrWrongTypeOperation, "C19.hdel-wrongtype")
				break
			}
			_, had := s.hash[f]
			verifAssert(err == nil && ok == had, "C19.hdel-reply")
			delete(s.hash, f)
		case cSAdd:
			f := verifChoice("fi", 2)
			ok, err := dts.SAdd(key, elems[f])
			if wrong(vSet) {
				verifAssert(err == ErrWrongTypeOperation, "C19.sadd-wrongtype")
				break
			}
			if s.kind == vNone {
				s.kind, s.set = vSet, map[int]bool{}
			}
			verifAssert(err == nil && ok == !s.set[f], "C19.sadd-reply")
			s.set[f] = true
		case cSIsMember:
			f := verifChoice("fi", 2)
			ok, err := dts.SIsMember(key, elems[f])
			if wrong(vSet) {
				verifAssert(err == ErrWrongTypeOperation, "C19.sismember-wrongtype")
				break
			}
			verifAssert(err == nil && ok == s.set[f], "C19.sismember-reply")
		case cSRem:
			f := verifChoice("fi", 2)
			ok, err := dts.SRem(key, elems[f])
			if wrong(vSet) {
				verifAssert(err == ErrWrongTypeOperation, "C19.srem-wrongtype")
				break
			}
			verifAssert(err == nil && ok == s.set[f], "C19.srem-reply")
			delete(s.set, f)
		case cLPush, cRPush:
			left := cmds[0] != cRPush && verifChoice("left", 2) == 0
			v := vVal19("lv")
			var n uint32
			var err error
			if left {
				n, err = dts.LPush(key, v)
			} else {
				n, err = dts.RPush(key, v)
			}
			if wrong(vList) {
				verifAssert(err == ErrWrongTypeOperation, "C19.push-wrongtype")
				break
			}
			s.kind = vList
			if left {
				s.list = append([][]byte{vcp(v)}, s.list...)
			} else {
				s.list = append(s.list, vcp(v))
			}
			verifAssert(err == nil && int(n) == len(s.list), "C19.push-reply")
		case cLPop:
			left := verifChoice("left", 2) == 0
			var v []byte
			var err error
			if left {
				v, err = dts.LPop(key)
			} else {
				v, err = dts.RPop(key)
			}
			if wrong(vList) {
				verifAssert(err == ErrWrongTypeOperation, "C19.pop-wrongtype")
				break
			}
			if len(s.list) == 0 {
				verifAssert(v == nil && err == nil, "C19.pop-empty")
				break
			}
			var want []byte
			if left {
				want, s.list = s.list[0], s.list[1:]
			} else {
				want, s.list = s.list[len(s.list)-1], s.list[:len(s.list)-1]
			}
			verifAssert(err == nil && len(v) == len(want), "C19.pop-shape")
			verifAssert(verifBytesEq(v, want), "C19.pop-value")
			verifReach("popped")
		case cZAdd:
			f := verifChoice("fi", 2)
			ns := len(scores)
			if v := verifParam("nscores"); v > 0 && v < ns {
				ns = v
			}
			sc := scores[verifChoice("score", ns)]
			if s.kind == vZSet && verifKnown("KF-C19-zset-member-key-aliases-score-key") && vZsetAliased(s, elems, f) {
				verifKnownHit("KF-C19-zset-member-key-aliases-score-key", "ZAdd of a member named <score text><other member><len4>")
			}
			ok, err := dts.ZAdd(key, sc, elems[f])
			if wrong(vZSet) {
				verifAssert(err == ErrWrongTypeOperation, "C19.zadd-wrongtype")
				break
			}
			if s.kind == vNone {
				s.kind, s.zset = vZSet, map[int]float64{}
			}
			_, had := s.zset[f]
			verifAssert(err == nil && ok == !had, "C19.zadd-reply")
			s.zset[f] = sc
		case cZScore:
			f := verifChoice("fi", 2)
			if s.kind == vZSet && verifKnown("KF-C19-zset-member-key-aliases-score-key") && vZsetAliased(s, elems, f) {
				verifKnownHit("KF-C19-zset-member-key-aliases-score-key", "ZScore of a member named <score text><other member><len4>")
			}
			sc, err := dts.ZScore(key, elems[f])
			if wrong(vZSet) {
				verifAssert(err == ErrWrongTypeOperation, "C19.zscore-wrongtype")
				break
			}
			want, had := s.zset[f]
			if !had {
				verifAssert(sc == -1 && (err == nil || err == bitcask.ErrKeyNotFound), "C19.zscore-absent")
			} else {
				verifAssert(err == nil && sc == want, "C19.zscore-reply")
			}
		case cRestart:
			if verifParam("mergerestart") == 1 {
				// the restart adopts a merge: every live structure record (metadata, fields, members, list slots,
				// expiring strings) is rewritten by Merge and re-indexed through the hint file
				verifAssert(dts.db.Merge() == nil, "C19.merge-err")
				verifReach("merged")
			}
			verifAssert(dts.Close() == nil, "C19.close-err")
			dts, err = NewDataTypeService(opts)
			verifAssert(err == nil, "C19.reopen-err")
			verifReach("restarted")
		}
	}
	verifReach("done")
	if verifParam("witness") == 1 {
		verifAssert(false, "witness")
	}
}

const (
	cSet = 1 << iota
	cGet
	cDel
	cType
	cHSet
	cHGet
	cHDel
	cSAdd
	cSIsMember
	cSRem
	cLPush
	cRPush
	cLPop
	cZAdd
	cZScore
	cRestart
)

func vCmdsFromMask(mask int) []int {
	var out []int
	for b := 1; b <= cRestart; b <<= 1 {
		if mask&b != 0 {
			out = append(out, b)
		}
	}
	return out
}
