package sx

import (
	"fmt"
	"go/types"
	"math"
	"path"
	"path/filepath"
	"strconv"
	"strings"
)

// More stdlib models: cheap insurance so that a changed repository that reaches for a common helper does not
// turn a check inconclusive. All operate on concrete arguments (symbolic strings abort as unsupported).

func strArg(v Value, what string) string { return concStr(v, what) }

func strSliceVal(ss []string) []Value {
	out := make([]Value, len(ss))
	for i, s := range ss {
		out[i] = s
	}
	return out
}

func intVal(n int) Value { return norm(uint64(int64(n)), 64, true) }

// sortWith sorts sl in place with an interpreted less(i, j) (insertion sort: stable, few elements).
func sortWith(fr *Frame, sl []Value, less Value) {
	for i := 1; i < len(sl); i++ {
		for j := i; j > 0; j-- {
			r := call(fr.it, fr, 0, less, []Value{intVal(j), intVal(j - 1)})
			var b bool
			switch c := r.(type) {
			case bool:
				b = c
			default:
				b = fr.it.path.Branch(fr.it.boolTerm(r))
			}
			if !b {
				break
			}
			sl[j], sl[j-1] = sl[j-1], sl[j]
		}
	}
}

func init() {
	for k, v := range map[string]ExtFn{
		"sort.Slice": func(fr *Frame, a []Value) Value {
			itf := a[0].(Iface)
			sl, _ := itf.V.([]Value)
			sortWith(fr, sl, a[1])
			return nil
		},
		"sort.SliceStable": func(fr *Frame, a []Value) Value {
			itf := a[0].(Iface)
			sl, _ := itf.V.([]Value)
			sortWith(fr, sl, a[1])
			return nil
		},
		"strings.Contains": func(fr *Frame, a []Value) Value {
			return strings.Contains(strArg(a[0], "strings"), strArg(a[1], "strings"))
		},
		"strings.TrimSuffix": func(fr *Frame, a []Value) Value {
			return strings.TrimSuffix(strArg(a[0], "strings"), strArg(a[1], "strings"))
		},
		"strings.TrimPrefix": func(fr *Frame, a []Value) Value {
			return strings.TrimPrefix(strArg(a[0], "strings"), strArg(a[1], "strings"))
		},
		"strings.TrimSpace": func(fr *Frame, a []Value) Value { return strings.TrimSpace(strArg(a[0], "strings")) },
		"strings.Index": func(fr *Frame, a []Value) Value {
			return intVal(strings.Index(strArg(a[0], "strings"), strArg(a[1], "strings")))
		},
		"strings.LastIndex": func(fr *Frame, a []Value) Value {
			return intVal(strings.LastIndex(strArg(a[0], "strings"), strArg(a[1], "strings")))
		},
		"strings.ToLower": func(fr *Frame, a []Value) Value { return strings.ToLower(strArg(a[0], "strings")) },
		"strings.ToUpper": func(fr *Frame, a []Value) Value { return strings.ToUpper(strArg(a[0], "strings")) },
		"strings.EqualFold": func(fr *Frame, a []Value) Value {
			return strings.EqualFold(strArg(a[0], "strings"), strArg(a[1], "strings"))
		},
		"strings.Compare": func(fr *Frame, a []Value) Value {
			return intVal(strings.Compare(strArg(a[0], "strings"), strArg(a[1], "strings")))
		},
		"strings.Repeat": func(fr *Frame, a []Value) Value {
			return strings.Repeat(strArg(a[0], "strings"), int(int64(a[1].(uint64))))
		},
		"strings.Fields": func(fr *Frame, a []Value) Value { return strSliceVal(strings.Fields(strArg(a[0], "strings"))) },
		"strings.SplitN": func(fr *Frame, a []Value) Value {
			return strSliceVal(strings.SplitN(strArg(a[0], "strings"), strArg(a[1], "strings"), int(int64(a[2].(uint64)))))
		},
		"strings.Join": func(fr *Frame, a []Value) Value {
			var parts []string
			for _, p := range a[0].([]Value) {
				parts = append(parts, strArg(p, "strings.Join"))
			}
			return strings.Join(parts, strArg(a[1], "strings.Join"))
		},
		"strings.ReplaceAll": func(fr *Frame, a []Value) Value {
			return strings.ReplaceAll(strArg(a[0], "strings"), strArg(a[1], "strings"), strArg(a[2], "strings"))
		},
		"strings.Count": func(fr *Frame, a []Value) Value {
			return intVal(strings.Count(strArg(a[0], "strings"), strArg(a[1], "strings")))
		},
		"strconv.ParseInt": func(fr *Frame, a []Value) Value {
			n, err := strconv.ParseInt(strArg(a[0], "strconv"), int(int64(a[1].(uint64))), int(int64(a[2].(uint64))))
			if err != nil {
				return Tuple{uint64(n), fr.it.makeError(err.Error())}
			}
			return Tuple{uint64(n), Iface{}}
		},
		"strconv.ParseUint": func(fr *Frame, a []Value) Value {
			n, err := strconv.ParseUint(strArg(a[0], "strconv"), int(int64(a[1].(uint64))), int(int64(a[2].(uint64))))
			if err != nil {
				return Tuple{n, fr.it.makeError(err.Error())}
			}
			return Tuple{n, Iface{}}
		},
		"strconv.FormatUint": func(fr *Frame, a []Value) Value { return strconv.FormatUint(a[0].(uint64), int(a[1].(uint64))) },
		"strconv.Quote":      func(fr *Frame, a []Value) Value { return strconv.Quote(strArg(a[0], "strconv")) },
		"fmt.Sprint": func(fr *Frame, a []Value) Value {
			return fmt.Sprint(fr.it.hostArgs(a[0].([]Value))...)
		},
		"fmt.Sprintln": func(fr *Frame, a []Value) Value {
			return fmt.Sprintln(fr.it.hostArgs(a[0].([]Value))...)
		},
		"fmt.Fprintf":  func(fr *Frame, a []Value) Value { return Tuple{uint64(0), Iface{}} },
		"fmt.Fprintln": func(fr *Frame, a []Value) Value { return Tuple{uint64(0), Iface{}} },
		"fmt.Fprint":   func(fr *Frame, a []Value) Value { return Tuple{uint64(0), Iface{}} },
		"log.Printf":   func(fr *Frame, a []Value) Value { return nil },
		"log.Println":  func(fr *Frame, a []Value) Value { return nil },
		"log.Print":    func(fr *Frame, a []Value) Value { return nil },
		"log.Fatalf": func(fr *Frame, a []Value) Value {
			panic(fatalError{"log.Fatalf: " + fmt.Sprintf(strArg(a[0], "log.Fatalf"), fr.it.hostArgs(a[1].([]Value))...)})
		},
		"log.Fatal": func(fr *Frame, a []Value) Value {
			panic(fatalError{"log.Fatal: " + fmt.Sprint(fr.it.hostArgs(a[0].([]Value))...)})
		},
		"os.Exit": func(fr *Frame, a []Value) Value {
			panic(fatalError{fmt.Sprintf("os.Exit(%d)", int64(a[0].(uint64)))})
		},
		"os.Getpagesize":     func(fr *Frame, a []Value) Value { return uint64(4096) },
		"os.Getpid":          func(fr *Frame, a []Value) Value { return uint64(4242) },
		"runtime.Gosched":    func(fr *Frame, a []Value) Value { fr.it.sched.yield("gosched"); return nil },
		"runtime.GC":         func(fr *Frame, a []Value) Value { return nil },
		"runtime.KeepAlive":  func(fr *Frame, a []Value) Value { return nil },
		"runtime.NumCPU":     func(fr *Frame, a []Value) Value { return uint64(4) },
		"runtime.GOMAXPROCS": func(fr *Frame, a []Value) Value { return uint64(4) },
		"time.Sleep":         func(fr *Frame, a []Value) Value { fr.it.sched.yield("sleep"); return nil },
		"path/filepath.Ext":  func(fr *Frame, a []Value) Value { return filepath.Ext(strArg(a[0], "filepath")) },
		"path/filepath.IsAbs": func(fr *Frame, a []Value) Value {
			return filepath.IsAbs(strArg(a[0], "filepath"))
		},
		"path/filepath.Abs": func(fr *Frame, a []Value) Value {
			return Tuple{clean(strArg(a[0], "filepath")), Iface{}}
		},
		"path/filepath.Split": func(fr *Frame, a []Value) Value {
			d, f := filepath.Split(strArg(a[0], "filepath"))
			return Tuple{d, f}
		},
		"path/filepath.Glob": func(fr *Frame, a []Value) Value {
			e := fr.it.env
			pat := clean(strArg(a[0], "filepath.Glob"))
			var out []string
			for p := range e.nodes {
				if ok, _ := filepath.Match(pat, p); ok {
					out = append(out, p)
				}
			}
			sortStrings(out)
			return Tuple{strSliceVal(out), Iface{}}
		},
		"path.Join": func(fr *Frame, a []Value) Value {
			var parts []string
			for _, p := range a[0].([]Value) {
				parts = append(parts, strArg(p, "path.Join"))
			}
			return path.Join(parts...)
		},
		"path.Base": func(fr *Frame, a []Value) Value { return path.Base(strArg(a[0], "path")) },
		"path.Dir":  func(fr *Frame, a []Value) Value { return path.Dir(strArg(a[0], "path")) },
		"internal/bytealg.IndexByte": func(fr *Frame, a []Value) Value {
			b := a[0].([]Value)
			for i, x := range b {
				e := fr.it.eqTerm(types.Typ[types.Uint8], x, a[1])
				if fr.it.path.Branch(e) {
					return intVal(i)
				}
			}
			return intVal(-1)
		},
		"internal/bytealg.Equal": func(fr *Frame, a []Value) Value {
			return simp(fr.it.bytesEqTerm(a[0].([]Value), a[1].([]Value)), false)
		},
		"errors.Unwrap": func(fr *Frame, a []Value) Value {
			err := a[0].(Iface)
			if err.T == nil {
				return Iface{}
			}
			ms := fr.it.P.Prog.MethodSets.MethodSet(err.T)
			sel := ms.Lookup(nil, "Unwrap")
			if sel == nil {
				return Iface{}
			}
			fn := fr.it.P.Prog.MethodValue(sel)
			if fn == nil || fn.Signature.Results().Len() != 1 {
				return Iface{}
			}
			r, _ := call(fr.it, fr, 0, fn, []Value{err.V}).(Iface)
			return r
		},
		// sync.Once
		"(*sync.Once).Do": func(fr *Frame, a []Value) Value {
			it := fr.it
			addr := a[0].(*Value)
			if _, done := it.hostSide[addr]; done {
				return nil
			}
			it.hostSide[addr] = true
			call(it, fr, 0, a[1], nil)
			return nil
		},
	} {
		externals[k] = v
	}
	// typed atomics: (*atomic.Int64).Add etc. operate on the struct's value field
	for _, tn := range []struct {
		name   string
		w      uint8
		signed bool
	}{{"Int64", 64, true}, {"Uint64", 64, false}, {"Int32", 32, true}, {"Uint32", 32, false}} {
		tn := tn
		field := func(fr *Frame, recv Value) *Value {
			p := recv.(*Value)
			st := (*p).(Struct)
			// the value is the last field named "v"
			return &st[len(st)-1]
		}
		externals["(*sync/atomic."+tn.name+").Add"] = func(fr *Frame, a []Value) Value {
			return externals["sync/atomic.Add"+tn.name](fr, []Value{field(fr, a[0]), a[1]})
		}
		externals["(*sync/atomic."+tn.name+").Load"] = func(fr *Frame, a []Value) Value {
			return externals["sync/atomic.Load"+tn.name](fr, []Value{field(fr, a[0])})
		}
		externals["(*sync/atomic."+tn.name+").Store"] = func(fr *Frame, a []Value) Value {
			return externals["sync/atomic.Store"+tn.name](fr, []Value{field(fr, a[0]), a[1]})
		}
		externals["(*sync/atomic."+tn.name+").CompareAndSwap"] = func(fr *Frame, a []Value) Value {
			return externals["sync/atomic.CompareAndSwap"+tn.name](fr, []Value{field(fr, a[0]), a[1], a[2]})
		}
	}
	externals["(*sync/atomic.Bool).Load"] = func(fr *Frame, a []Value) Value {
		p := a[0].(*Value)
		st := (*p).(Struct)
		fr.it.sched.yield("atomic")
		fr.it.raceAtomic(&st[len(st)-1], false)
		v, _ := st[len(st)-1].(uint64)
		return v != 0
	}
	externals["(*sync/atomic.Bool).Store"] = func(fr *Frame, a []Value) Value {
		p := a[0].(*Value)
		st := (*p).(Struct)
		fr.it.sched.yield("atomic")
		fr.it.raceAtomic(&st[len(st)-1], true)
		if a[1].(bool) {
			st[len(st)-1] = uint64(1)
		} else {
			st[len(st)-1] = uint64(0)
		}
		return nil
	}
}

func sortStrings(ss []string) {
	for i := 1; i < len(ss); i++ {
		for j := i; j > 0 && ss[j] < ss[j-1]; j-- {
			ss[j], ss[j-1] = ss[j-1], ss[j]
		}
	}
}

// ---------- io.Copy family (streams between modelled files and interpreted readers/writers) ----------

// callIfaceMethod calls method name on the dynamic value of an interface (external or interpreted).
func callIfaceMethod(fr *Frame, x Iface, name string, args ...Value) Value {
	it := fr.it
	if x.T == nil {
		it.rtPanic("invalid memory address or nil pointer dereference (method call on nil interface)")
	}
	sel := it.P.Prog.MethodSets.MethodSet(x.T).Lookup(nil, name)
	if sel == nil {
		// unexported / embedded lookups need the package; the io interfaces only have exported methods
		panic(abort{st: StUnsupported, msg: fmt.Sprintf("io copy: %s has no method %s", x.T, name)})
	}
	fn := it.P.Prog.MethodValue(sel)
	return call(it, fr, 0, fn, append([]Value{x.V}, args...))
}

func ioCopy(fr *Frame, dst, src Iface, limit int64) Value {
	it := fr.it
	var total uint64
	for rounds := 0; rounds < 1<<16; rounds++ {
		sz := 4096
		if limit >= 0 && int64(sz) > limit-int64(total) {
			sz = int(limit - int64(total))
		}
		if sz == 0 {
			break
		}
		buf := make([]Value, sz)
		for i := range buf {
			buf[i] = uint64(0)
		}
		r := callIfaceMethod(fr, src, "Read", buf).(Tuple)
		n := int(it.concInt(r[0], "io.Copy read count"))
		if n > 0 {
			w := callIfaceMethod(fr, dst, "Write", buf[:n:n]).(Tuple)
			wn := it.concInt(w[0], "io.Copy write count")
			if wn > 0 {
				total += uint64(wn)
			}
			if e := w[1].(Iface); e.T != nil {
				return Tuple{total, e}
			}
			if int(wn) != n {
				return Tuple{total, it.env.errVal("short write")}
			}
		}
		if e := r[1].(Iface); e.T != nil {
			eof := it.ioEOF()
			if e.V == eof.V {
				break
			}
			return Tuple{total, e}
		}
	}
	return Tuple{total, Iface{}}
}

func init() {
	externals["io.Copy"] = func(fr *Frame, a []Value) Value { return ioCopy(fr, a[0].(Iface), a[1].(Iface), -1) }
	externals["io.CopyBuffer"] = func(fr *Frame, a []Value) Value { return ioCopy(fr, a[0].(Iface), a[1].(Iface), -1) }
	externals["io.CopyN"] = func(fr *Frame, a []Value) Value {
		n := fr.it.concInt(a[2], "io.CopyN n")
		r := ioCopy(fr, a[0].(Iface), a[1].(Iface), n).(Tuple)
		if int64(r[0].(uint64)) < n && r[1].(Iface).T == nil {
			return Tuple{r[0], fr.it.ioEOF()}
		}
		return r
	}
	externals["io.ReadAll"] = func(fr *Frame, a []Value) Value {
		it := fr.it
		var out []Value
		src := a[0].(Iface)
		for rounds := 0; rounds < 1<<16; rounds++ {
			buf := make([]Value, 512)
			for i := range buf {
				buf[i] = uint64(0)
			}
			r := callIfaceMethod(fr, src, "Read", buf).(Tuple)
			n := int(it.concInt(r[0], "io.ReadAll read count"))
			out = append(out, buf[:n]...)
			if e := r[1].(Iface); e.T != nil {
				if e.V == it.ioEOF().V {
					break
				}
				return Tuple{out, e}
			}
		}
		if out == nil {
			out = []Value{}
		}
		return Tuple{out, Iface{}}
	}
	fileIface := func(fr *Frame, f Value) Iface {
		return Iface{T: types.NewPointer(fr.it.namedType("os", "File")), V: f}
	}
	externals["(*os.File).WriteTo"] = func(fr *Frame, a []Value) Value {
		return ioCopy(fr, a[1].(Iface), fileIface(fr, a[0]), -1)
	}
	externals["(*os.File).ReadFrom"] = func(fr *Frame, a []Value) Value {
		return ioCopy(fr, fileIface(fr, a[0]), a[1].(Iface), -1)
	}
}

// ---------- math on concrete floats ----------

func init() {
	f1 := func(name string, fn func(float64) float64) {
		externals["math."+name] = func(fr *Frame, a []Value) Value {
			x, ok := a[0].(float64)
			if !ok {
				panic(abort{st: StUnsupported, msg: "math." + name + " of a non-concrete float"})
			}
			return fn(x)
		}
	}
	f1("Abs", math.Abs)
	f1("Floor", math.Floor)
	f1("Ceil", math.Ceil)
	f1("Trunc", math.Trunc)
	f1("Sqrt", math.Sqrt)
	f1("Round", math.Round)
	externals["math.Float64bits"] = func(fr *Frame, a []Value) Value {
		x, ok := a[0].(float64)
		if !ok {
			panic(abort{st: StUnsupported, msg: "math.Float64bits of a non-concrete float"})
		}
		return math.Float64bits(x)
	}
	externals["math.Float64frombits"] = func(fr *Frame, a []Value) Value {
		x, ok := a[0].(uint64)
		if !ok {
			panic(abort{st: StUnsupported, msg: "math.Float64frombits of a symbolic word"})
		}
		return math.Float64frombits(x)
	}
	externals["math.IsNaN"] = func(fr *Frame, a []Value) Value { x, _ := a[0].(float64); return math.IsNaN(x) }
	externals["math.IsInf"] = func(fr *Frame, a []Value) Value {
		x, _ := a[0].(float64)
		return math.IsInf(x, int(int64(a[1].(uint64))))
	}
	externals["math.Max"] = func(fr *Frame, a []Value) Value { return math.Max(a[0].(float64), a[1].(float64)) }
	externals["math.Min"] = func(fr *Frame, a []Value) Value { return math.Min(a[0].(float64), a[1].(float64)) }
}

// time.NewTicker: the engine's clock only moves when a harness moves it, so a ticker never fires: its channel is nil.
func init() {
	externals["time.NewTicker"] = func(fr *Frame, a []Value) Value {
		t := fr.it.namedType("time", "Ticker")
		cell := new(Value)
		*cell = zero(t)
		return cell
	}
	externals["(*time.Ticker).Stop"] = func(fr *Frame, a []Value) Value { return nil }
	externals["(*time.Ticker).Reset"] = func(fr *Frame, a []Value) Value { return nil }
}
