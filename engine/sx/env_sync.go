package sx

import (
	"fmt"
	"go/types"

	"gosx/smt"
)

// ---------- sync.Mutex / RWMutex / Pool / WaitGroup, sync/atomic ----------

type mutexState struct {
	writer  *Thread
	locked  bool
	readers int
	// writer preference: a pending writer blocks new readers
	pendingW int
}

func (it *Interp) mutex(p Value) *mutexState {
	addr := p.(*Value)
	if addr == nil {
		it.rtPanic("invalid memory address or nil pointer dereference (nil mutex)")
	}
	if s, ok := it.hostSide[addr]; ok {
		return s.(*mutexState)
	}
	s := &mutexState{}
	it.hostSide[addr] = s
	return s
}

type poolState struct {
	items []Value
}

func registerSyncExternals() {
	lock := func(fr *Frame, a []Value) Value {
		it := fr.it
		m := it.mutex(a[0])
		it.sched.yield("lock")
		if m.locked || m.readers > 0 {
			m.pendingW++
			it.sched.block("Lock", func() bool { return !m.locked && m.readers == 0 })
			m.pendingW--
		}
		m.locked = true
		m.writer = it.sched.cur
		it.raceAcquire(m, false)
		it.sched.logEvent(SyncEvent{Kind: "acq", Thread: it.sched.cur.id, Obj: m})
		return nil
	}
	unlock := func(fr *Frame, a []Value) Value {
		it := fr.it
		m := it.mutex(a[0])
		if !m.locked {
			panic(fatalError{"sync: unlock of unlocked mutex"})
		}
		it.sched.logEvent(SyncEvent{Kind: "rel", Thread: it.sched.cur.id, Obj: m})
		it.raceRelease(m, false)
		m.locked = false
		m.writer = nil
		it.sched.yield("unlock")
		return nil
	}
	rlock := func(fr *Frame, a []Value) Value {
		it := fr.it
		m := it.mutex(a[0])
		it.sched.yield("rlock")
		if m.locked || m.pendingW > 0 {
			it.sched.block("RLock", func() bool { return !m.locked && m.pendingW == 0 })
		}
		m.readers++
		it.raceAcquire(m, true)
		it.sched.logEvent(SyncEvent{Kind: "racq", Thread: it.sched.cur.id, Obj: m})
		return nil
	}
	runlock := func(fr *Frame, a []Value) Value {
		it := fr.it
		m := it.mutex(a[0])
		if m.readers <= 0 {
			panic(fatalError{"sync: RUnlock of unlocked RWMutex"})
		}
		it.sched.logEvent(SyncEvent{Kind: "rrel", Thread: it.sched.cur.id, Obj: m})
		it.raceRelease(m, true)
		m.readers--
		it.sched.yield("runlock")
		return nil
	}
	externals["(*sync.Mutex).Lock"] = lock
	externals["(*sync.Mutex).Unlock"] = unlock
	externals["(*sync.Mutex).TryLock"] = func(fr *Frame, a []Value) Value {
		m := fr.it.mutex(a[0])
		if m.locked {
			return false
		}
		m.locked = true
		m.writer = fr.it.sched.cur
		return true
	}
	externals["(*sync.RWMutex).Lock"] = lock
	externals["(*sync.RWMutex).Unlock"] = unlock
	externals["(*sync.RWMutex).RLock"] = rlock
	externals["(*sync.RWMutex).RUnlock"] = runlock

	externals["(*sync.Pool).Get"] = func(fr *Frame, a []Value) Value {
		it := fr.it
		addr := a[0].(*Value)
		it.sched.yield("pool.get")
		var ps *poolState
		if s, ok := it.hostSide[addr]; ok {
			ps = s.(*poolState)
		} else {
			ps = &poolState{}
			it.hostSide[addr] = ps
		}
		it.raceAcquire(ps, false)
		if n := len(ps.items); n > 0 && it.params["pool_new"] == 0 {
			v := ps.items[n-1]
			ps.items = ps.items[:n-1]
			return v
		}
		// call New
		st := (*addr).(Struct)
		ts := it.namedType("sync", "Pool").Underlying().(*types.Struct)
		for i := 0; i < ts.NumFields(); i++ {
			if ts.Field(i).Name() == "New" {
				f := st[i]
				if isNilFunc(f) {
					return Iface{}
				}
				return call(it, fr, 0, f, nil)
			}
		}
		return Iface{}
	}
	externals["(*sync.Pool).Put"] = func(fr *Frame, a []Value) Value {
		it := fr.it
		addr := a[0].(*Value)
		it.sched.yield("pool.put")
		var ps *poolState
		if s, ok := it.hostSide[addr]; ok {
			ps = s.(*poolState)
		} else {
			ps = &poolState{}
			it.hostSide[addr] = ps
		}
		if x, ok := a[1].(Iface); ok && x.T == nil {
			return nil
		}
		ps.items = append(ps.items, a[1])
		if it.raceActive() {
			// Put releases into the pool without overwriting what earlier Puts released
			l := it.race.lock(ps)
			l.w.join(*it.race.tvc(it.sched.cur.id))
			(*it.race.tvc(it.sched.cur.id))[it.sched.cur.id]++
		}
		return nil
	}

	// atomics on 64/32-bit cells
	atomicAdd := func(w uint8, signed bool) ExtFn {
		return func(fr *Frame, a []Value) Value {
			it := fr.it
			addr := a[0].(*Value)
			if addr == nil {
				it.rtPanic("invalid memory address or nil pointer dereference")
			}
			it.sched.yield("atomic")
			it.sched.logEvent(SyncEvent{Kind: "atomic", Thread: it.sched.cur.id, Obj: addr})
			it.raceAtomic(addr, true)
			t := types.Typ[types.Uint64]
			switch {
			case w == 64 && signed:
				t = types.Typ[types.Int64]
			case w == 32 && signed:
				t = types.Typ[types.Int32]
			case w == 32:
				t = types.Typ[types.Uint32]
			}
			nv := it.binop(tokenADD, t, t, *addr, a[1])
			*addr = nv
			return nv
		}
	}
	externals["sync/atomic.AddInt64"] = atomicAdd(64, true)
	externals["sync/atomic.AddUint64"] = atomicAdd(64, false)
	externals["sync/atomic.AddInt32"] = atomicAdd(32, true)
	externals["sync/atomic.AddUint32"] = atomicAdd(32, false)
	load := func(fr *Frame, a []Value) Value {
		it := fr.it
		addr := a[0].(*Value)
		it.sched.yield("atomic")
		it.sched.logEvent(SyncEvent{Kind: "atomic", Thread: it.sched.cur.id, Obj: addr})
		it.raceAtomic(addr, false)
		return *addr
	}
	storeF := func(fr *Frame, a []Value) Value {
		it := fr.it
		addr := a[0].(*Value)
		it.sched.yield("atomic")
		it.sched.logEvent(SyncEvent{Kind: "atomic", Thread: it.sched.cur.id, Obj: addr})
		it.raceAtomic(addr, true)
		*addr = a[1]
		return nil
	}
	for _, n := range []string{"Int64", "Uint64", "Int32", "Uint32"} {
		externals["sync/atomic.Load"+n] = load
		externals["sync/atomic.Store"+n] = storeF
	}
	cas := func(fr *Frame, a []Value) Value {
		it := fr.it
		addr := a[0].(*Value)
		it.sched.yield("atomic")
		it.sched.logEvent(SyncEvent{Kind: "atomic", Thread: it.sched.cur.id, Obj: addr})
		it.raceAtomic(addr, true)
		eq := it.eqTerm(types.Typ[types.Uint64], *addr, a[1])
		if it.path.Branch(eq) {
			*addr = a[2]
			return true
		}
		return false
	}
	externals["sync/atomic.CompareAndSwapUint64"] = cas
	externals["sync/atomic.CompareAndSwapInt64"] = cas
	externals["sync/atomic.CompareAndSwapInt32"] = cas
	externals["sync/atomic.CompareAndSwapUint32"] = cas
}

// ---------- time ----------

func registerTimeExternals() {
	externals["time.Now"] = func(fr *Frame, a []Value) Value {
		return Struct{uint64(0), fr.it.env.now, (*Value)(nil)}
	}
	externals["(time.Time).UnixNano"] = func(fr *Frame, a []Value) Value { return a[0].(Struct)[1] }
	externals["(time.Time).Unix"] = func(fr *Frame, a []Value) Value {
		t := types.Typ[types.Int64]
		return fr.it.binop(tokenQUO, t, t, a[0].(Struct)[1], uint64(1_000_000_000))
	}
	externals["(time.Time).UnixMilli"] = func(fr *Frame, a []Value) Value {
		t := types.Typ[types.Int64]
		return fr.it.binop(tokenQUO, t, t, a[0].(Struct)[1], uint64(1_000_000))
	}
	externals["(time.Time).Add"] = func(fr *Frame, a []Value) Value {
		t := types.Typ[types.Int64]
		return Struct{uint64(0), fr.it.binop(tokenADD, t, t, a[0].(Struct)[1], a[1]), (*Value)(nil)}
	}
	cmpT := func(op string) ExtFn {
		return func(fr *Frame, a []Value) Value {
			x, y := a[0].(Struct)[1], a[1].(Struct)[1]
			xi, ok1 := x.(uint64)
			yi, ok2 := y.(uint64)
			if !ok1 || !ok2 {
				panic(abort{st: StUnsupported, msg: "comparison of symbolic instants"})
			}
			switch op {
			case "before":
				return int64(xi) < int64(yi)
			case "after":
				return int64(xi) > int64(yi)
			}
			return xi == yi
		}
	}
	externals["(time.Time).Before"] = cmpT("before")
	externals["(time.Time).After"] = cmpT("after")
	externals["(time.Time).Equal"] = cmpT("equal")
	externals["(time.Time).Compare"] = func(fr *Frame, a []Value) Value {
		x, y := int64(a[0].(Struct)[1].(uint64)), int64(a[1].(Struct)[1].(uint64))
		switch {
		case x < y:
			return norm(^uint64(0), 64, true)
		case x > y:
			return uint64(1)
		}
		return uint64(0)
	}
	externals["(time.Time).IsZero"] = func(fr *Frame, a []Value) Value {
		x, ok := a[0].(Struct)[1].(uint64)
		return ok && x == 0
	}
	externals["(time.Time).Sub"] = func(fr *Frame, a []Value) Value {
		t := types.Typ[types.Int64]
		return fr.it.binop(tokenSUB, t, t, a[0].(Struct)[1], a[1].(Struct)[1])
	}
	externals["time.Since"] = func(fr *Frame, a []Value) Value {
		t := types.Typ[types.Int64]
		return fr.it.binop(tokenSUB, t, t, fr.it.env.now, a[0].(Struct)[1])
	}
}

// clockStep advances the clock to a fresh symbolic instant strictly after the previous one.
func (e *Env) clockStep(symbolic bool) {
	it := e.it
	if !symbolic {
		switch n := e.now.(type) {
		case uint64:
			e.now = n + 1_000_000
			return
		}
	}
	s := it.st()
	e.nowSeq++
	v := s.Var(it.path.FreshName("T"), 64)
	prev := it.term(e.now, 64)
	hi := s.Const(64, uint64(clockT0)+1<<40)
	it.path.Assume(s.And(s.Cmp(smt.OpSlt, prev, v), s.Cmp(smt.OpSlt, v, hi)))
	e.now = v
}

var _ = fmt.Sprintf

// raceAtomic: an atomic operation synchronises with other atomics on the same word and conflicts with
// unordered plain accesses to it.
func (it *Interp) raceAtomic(addr *Value, write bool) {
	if !it.raceActive() {
		return
	}
	key := atomicKey{addr}
	it.raceAcquire(key, false)
	it.raceAccess(addr, write, true)
	it.raceRelease(key, false)
}

type atomicKey struct{ a *Value }

// sync.WaitGroup
type wgState struct {
	n   int64
	vcs vclock
}

func (it *Interp) wg(p Value) *wgState {
	addr := p.(*Value)
	if s, ok := it.hostSide[addr]; ok {
		return s.(*wgState)
	}
	s := &wgState{}
	it.hostSide[addr] = s
	return s
}

func init() {
	externals["(*sync.WaitGroup).Add"] = func(fr *Frame, a []Value) Value {
		w := fr.it.wg(a[0])
		w.n += int64(a[1].(uint64))
		if w.n < 0 {
			panic(targetPanic{v: Iface{T: fr.it.P.runtimeErr, V: "sync: negative WaitGroup counter"}})
		}
		return nil
	}
	externals["(*sync.WaitGroup).Done"] = func(fr *Frame, a []Value) Value {
		it := fr.it
		w := it.wg(a[0])
		it.sched.yield("wg.done")
		if it.raceActive() {
			w.vcs.join(*it.race.tvc(it.sched.cur.id))
			(*it.race.tvc(it.sched.cur.id))[it.sched.cur.id]++
		}
		w.n--
		if w.n < 0 {
			panic(targetPanic{v: Iface{T: it.P.runtimeErr, V: "sync: negative WaitGroup counter"}})
		}
		return nil
	}
	externals["(*sync.WaitGroup).Wait"] = func(fr *Frame, a []Value) Value {
		it := fr.it
		w := it.wg(a[0])
		it.sched.block("WaitGroup.Wait", func() bool { return w.n == 0 })
		if it.raceActive() {
			it.race.tvc(it.sched.cur.id).join(w.vcs)
		}
		return nil
	}
}
