package sx

import (
	"hash/crc32"

	"gosx/smt"
)

// CRC forging for native replays. The engine treats CRC-32 of symbolic bytes as an ideal checksum (a fresh 32-bit
// variable), so a path may require a checksum with a SPECIAL value (e.g. 0, which some code might take for
// "nothing written here"). For the native replay the covered bytes must then really have that CRC-32: four
// free symbolic bytes at the end of the coverage are recomputed so that they do (CRC-32 is affine, any target is
// reachable through 4 consecutive bytes). Paths that do not care about the value get the real CRC of the model's
// bytes, as before.

var crcRev [256]byte // top byte of table entry -> index

func init() {
	for i, e := range crc32.IEEETable {
		crcRev[e>>24] = byte(i)
	}
}

// forgeCRC32 returns 4 bytes for positions p..p+3 of bs such that ChecksumIEEE(bs) == target.
func forgeCRC32(bs []byte, p int, target uint32) [4]byte {
	tab := crc32.IEEETable
	// state before position p
	a := ^uint32(0)
	for i := 0; i < p; i++ {
		a = tab[byte(a)^bs[i]] ^ (a >> 8)
	}
	// state required after position p+3: run the suffix backwards from the final state
	b := ^target
	for i := len(bs) - 1; i >= p+4; i-- {
		idx := crcRev[b>>24]
		b = (b^tab[idx])<<8 | uint32(idx^bs[i])
	}
	// table indices of the 4 steps from a to b
	var idx [4]byte
	t := b
	for i := 3; i >= 0; i-- {
		idx[i] = crcRev[t>>24]
		t = (t ^ tab[idx[i]]) << 8
	}
	var out [4]byte
	c := a
	for i := 0; i < 4; i++ {
		out[i] = idx[i] ^ byte(c)
		c = tab[idx[i]] ^ (c >> 8)
	}
	return out
}

// forgeOrPatch decides, per checksum application, between patching the model's checksum value with the real CRC
// of the model's bytes and forging bytes so that the real CRC equals the value the path needs.
func (it *Interp) forgeOrPatch(m smt.Model, app *crcApp, v *smt.Term, bs []byte) {
	real := crc32.ChecksumIEEE(bs)
	want := uint32(m[v.Name])
	if real == want {
		return
	}
	// does the path care about the value? Evaluate the path condition with the checksum variable set to the real
	// CRC of the model's bytes: if some conjunct turns false, the path needs the value the solver chose.
	needSpecial := false
	if it.path != nil {
		m2 := smt.Model{}
		for k, x := range m {
			m2[k] = x
		}
		m2[v.Name] = uint64(real)
		memo := map[*smt.Term]uint64{}
		for _, c := range it.path.pc {
			if smt.Eval(c, m2, memo) == 0 {
				needSpecial = true
				break
			}
		}
	}
	if needSpecial {
		// the last 4 consecutive arguments that are plain 8-bit model variables (not key bytes)
		n := len(app.args)
		for p := n - 4; p >= 0; p-- {
			ok := true
			var vars [4]*smt.Term
			for k := 0; k < 4; k++ {
				t, isT := app.args[p+k].(*smt.Term)
				if !isT || t.Op != smt.OpVar || t.W != 8 || len(t.Name) >= 3 && t.Name[:3] == "key" {
					ok = false
					break
				}
				vars[k] = t
			}
			if !ok {
				continue
			}
			f := forgeCRC32(bs, p, want)
			for k := 0; k < 4; k++ {
				m[vars[k].Name] = uint64(f[k])
				bs[p+k] = f[k]
			}
			if crc32.ChecksumIEEE(bs) == want {
				it.path.notes["crc-forged"] = "4 value bytes recomputed so that the real CRC-32 equals the value the path needs"
				return
			}
		}
	}
	m[v.Name] = uint64(real)
}
