package sx

import (
	"fmt"
	"go/token"
	"sort"
	"strings"

	"gosx/smt"
)

const (
	tokenADD = token.ADD
	tokenSUB = token.SUB
	tokenQUO = token.QUO
)

var intrinsics = map[string]ExtFn{}

func (it *Interp) freshInt(name string, w uint8) Value {
	return it.st().Var(it.path.FreshName(name), w)
}

func init() {
	for k, v := range map[string]ExtFn{
		"verifU8":  func(fr *Frame, a []Value) Value { return fr.it.freshInt(concStr(a[0], "verifU8"), 8) },
		"verifU16": func(fr *Frame, a []Value) Value { return fr.it.freshInt(concStr(a[0], "verifU16"), 16) },
		"verifU32": func(fr *Frame, a []Value) Value { return fr.it.freshInt(concStr(a[0], "verifU32"), 32) },
		"verifU64": func(fr *Frame, a []Value) Value { return fr.it.freshInt(concStr(a[0], "verifU64"), 64) },
		"verifInt": func(fr *Frame, a []Value) Value { return fr.it.freshInt(concStr(a[0], "verifInt"), 64) },
		"verifBool": func(fr *Frame, a []Value) Value {
			return fr.it.st().Var(fr.it.path.FreshName(concStr(a[0], "verifBool")), 0)
		},
		"verifBytes": func(fr *Frame, a []Value) Value {
			it := fr.it
			n := int(it.concInt(a[1], "verifBytes length"))
			base := it.path.FreshName(concStr(a[0], "verifBytes"))
			out := make([]Value, n)
			for i := range out {
				out[i] = it.st().Var(fmt.Sprintf("%s[%d]", base, i), 8)
			}
			return out
		},
		"verifFill": func(fr *Frame, a []Value) Value {
			it := fr.it
			buf := a[0].([]Value)
			base := it.path.FreshName(concStr(a[1], "verifFill"))
			for i := range buf {
				buf[i] = it.st().Var(fmt.Sprintf("%s[%d]", base, i), 8)
			}
			return nil
		},
		"verifChoice": func(fr *Frame, a []Value) Value {
			it := fr.it
			n := int(it.concInt(a[1], "verifChoice n"))
			name := it.path.FreshName(concStr(a[0], "verifChoice"))
			k := it.path.Choice(n)
			it.path.choices[name] = uint64(k)
			return uint64(k)
		},
		"verifParam": func(fr *Frame, a []Value) Value {
			return uint64(fr.it.params[concStr(a[0], "verifParam")])
		},
		"verifAssume": func(fr *Frame, a []Value) Value {
			switch c := a[0].(type) {
			case bool:
				if !c {
					panic(abort{st: StDiscard, msg: "assume(false)"})
				}
			case *smt.Term:
				fr.it.path.Assume(c)
			}
			return nil
		},
		"verifAssert": func(fr *Frame, a []Value) Value {
			it := fr.it
			id := concStr(a[1], "verifAssert id")
			var holds bool
			var cex smt.Model
			switch c := a[0].(type) {
			case bool:
				holds = c
				if !c {
					cex = it.path.currentModelSafe()
				}
			case *smt.Term:
				holds, cex = it.path.Verdict(c)
			}
			if !holds {
				it.violationModel = cex
				panic(abort{st: StViolation, id: id, msg: "assertion " + id + " can be violated @ " + fr.caller.stack()})
			}
			return nil
		},
		"verifReach": func(fr *Frame, a []Value) Value {
			fr.it.path.reach[concStr(a[0], "verifReach")] = true
			return nil
		},
		"verifKnown": func(fr *Frame, a []Value) Value {
			return fr.it.known[concStr(a[0], "verifKnown")]
		},
		"verifKnownHit": func(fr *Frame, a []Value) Value {
			it := fr.it
			id := concStr(a[0], "verifKnownHit")
			it.path.known = append(it.path.known, id)
			panic(abort{st: StKnown, id: id, msg: concStr(a[1], "verifKnownHit")})
		},
		"verifNote": func(fr *Frame, a []Value) Value {
			v := toString(a[1])
			if itf, ok := a[1].(Iface); ok && itf.T != nil {
				if m := fr.it.errorString(itf); m != "" {
					v = m
				}
			}
			fr.it.path.notes[concStr(a[0], "verifNote")] = v
			return nil
		},
		"verifDir": func(fr *Frame, a []Value) Value { return "/d/" + concStr(a[0], "verifDir") },
		// Boolean combinators that do not fork
		"verifAnd": func(fr *Frame, a []Value) Value {
			return simp(fr.it.st().And(fr.it.boolTerm(a[0]), fr.it.boolTerm(a[1])), false)
		},
		"verifOr": func(fr *Frame, a []Value) Value {
			return simp(fr.it.st().Or(fr.it.boolTerm(a[0]), fr.it.boolTerm(a[1])), false)
		},
		"verifNot": func(fr *Frame, a []Value) Value {
			return simp(fr.it.st().Not(fr.it.boolTerm(a[0])), false)
		},
		"verifImplies": func(fr *Frame, a []Value) Value {
			return simp(fr.it.st().Implies(fr.it.boolTerm(a[0]), fr.it.boolTerm(a[1])), false)
		},
		"verifBytesEq": func(fr *Frame, a []Value) Value {
			x, _ := a[0].([]Value)
			y, _ := a[1].([]Value)
			return simp(fr.it.bytesEqTerm(x, y), false)
		},
		"verifBytesLess": func(fr *Frame, a []Value) Value {
			x, _ := a[0].([]Value)
			y, _ := a[1].([]Value)
			lt, _ := fr.it.bytesCmpTerms(x, y)
			return simp(lt, false)
		},
		"verifIteU64": func(fr *Frame, a []Value) Value {
			it := fr.it
			c := it.boolTerm(a[0])
			return simp(it.st().Ite(c, it.term(a[1], 64), it.term(a[2], 64)), false)
		},
		"verifIsConcrete": func(fr *Frame, a []Value) Value {
			switch a[0].(type) {
			case *smt.Term:
				return false
			}
			return true
		},
		"verifConcInt": func(fr *Frame, a []Value) Value {
			return uint64(fr.it.concInt(a[0], "verifConcInt"))
		},
		// crash control
		"verifCrashArm": func(fr *Frame, a []Value) Value {
			fr.it.env.crashArm = a[0].(bool)
			if fr.it.env.crashArm {
				fr.it.env.crashed = false
			}
			return nil
		},
		"verifCrashable": func(fr *Frame, a []Value) (res Value) {
			it := fr.it
			res = false
			func() {
				defer func() {
					if r := recover(); r != nil {
						if _, ok := r.(crashSignal); ok {
							res = true
							return
						}
						panic(r)
					}
				}()
				call(it, fr, 0, a[0], nil)
			}()
			return res
		},
		"verifCrashNow": func(fr *Frame, a []Value) Value {
			// process death (false) or power loss (true): turn the FS into the crash image
			fr.it.env.applyCrash(a[0].(bool))
			fr.it.hostSide = map[*Value]interface{}{}
			return nil
		},
		"verifCrashCopy": func(fr *Frame, a []Value) Value {
			// process death now; the directory stays where it is (the native twin copies it instead)
			fr.it.env.applyCrash(false)
			fr.it.hostSide = map[*Value]interface{}{}
			return a[0]
		},
		"verifClockStep": func(fr *Frame, a []Value) Value {
			fr.it.env.clockStep(a[0].(bool))
			return nil
		},
		"verifSetTag": func(fr *Frame, a []Value) Value {
			e := fr.it.env
			for _, n := range e.nodes {
				if !n.isDir && n.file != nil {
					n.file.attributeMapped(e.tag)
				}
			}
			e.tag = concStr(a[0], "verifSetTag")
			return nil
		},
		"verifFSLen": func(fr *Frame, a []Value) Value {
			n, ok := fr.it.env.lookupFile(concStr(a[0], "verifFSLen"))
			if !ok || n.isDir {
				return norm(^uint64(0), 64, true)
			}
			return uint64(n.file.size)
		},
		"verifFSExists": func(fr *Frame, a []Value) Value {
			_, ok := fr.it.env.lookupFile(concStr(a[0], "verifFSExists"))
			return ok
		},
		"verifFSList": func(fr *Frame, a []Value) Value {
			e := fr.it.env
			var out []Value
			for _, k := range e.children(clean(concStr(a[0], "verifFSList"))) {
				out = append(out, k)
			}
			return out
		},
		"verifFSBytes": func(fr *Frame, a []Value) Value {
			n, ok := fr.it.env.lookupFile(concStr(a[0], "verifFSBytes"))
			if !ok || n.isDir {
				return []Value(nil)
			}
			out := make([]Value, n.file.size)
			copy(out, n.file.cells[:n.file.size])
			return out
		},
		"verifFSUnsynced": func(fr *Frame, a []Value) Value {
			// unsynced bytes written under tags starting with the prefix ("" = all), in a file or in every file below a directory
			e := fr.it.env
			root := clean(concStr(a[0], "verifFSUnsynced"))
			pre := concStr(a[1], "verifFSUnsynced")
			tot := 0
			for p, n := range e.nodes {
				if n.isDir || (p != root && !strings.HasPrefix(p, root+"/")) {
					continue
				}
				for _, r := range n.file.unsynced {
					if strings.HasPrefix(r.tag, pre) && (pre == "" || r.tag == pre || len(r.tag) == len(pre) || isDigit(r.tag[len(pre)])) {
						tot += r.n
					}
				}
				// writes through a mapping are charged to the tag active when they happened
				n.file.attributeMapped(e.tag)
				tot += n.file.mappedUnsyncedTag(pre)
			}
			return uint64(tot)
		},
		"verifFSWrittenTag": func(fr *Frame, a []Value) Value {
			return uint64(fr.it.env.written[concStr(a[0], "verifFSWrittenTag")])
		},
		"verifNative": func(fr *Frame, a []Value) Value { return false },
		"verifCheckpointInt": func(fr *Frame, a []Value) Value {
			x := fr.it.concInt(a[1], "verifCheckpointInt")
			if fr.it.ckptFS == nil {
				fr.it.ckptFS = fr.it.env.copyCells()
			}
			fr.it.path.choices["ckpt:"+concStr(a[0], "verifCheckpointInt")] = uint64(x)
			return uint64(x)
		},
		"verifFSTornFiles": func(fr *Frame, a []Value) Value { return uint64(fr.it.env.nTorn) },
		"verifFSOps":       func(fr *Frame, a []Value) Value { return uint64(len(fr.it.env.ops)) },
		"verifFSOpKind": func(fr *Frame, a []Value) Value {
			e := fr.it.env
			i := int(fr.it.concInt(a[0], "verifFSOpKind"))
			if i < 0 || i >= len(e.ops) {
				return ""
			}
			return e.ops[i].Kind + " " + e.ops[i].Path
		},
		"verifFSOpThread": func(fr *Frame, a []Value) Value {
			e := fr.it.env
			i := int(fr.it.concInt(a[0], "verifFSOpThread"))
			if i < 0 || i >= len(e.ops) {
				return uint64(0)
			}
			return uint64(e.ops[i].Thr)
		},
		"verifTick": func(fr *Frame, a []Value) Value {
			// harness-owned logical clock: no switch point, no race-detector access
			fr.it.env.tick++
			return uint64(fr.it.env.tick)
		},
		"verifThreadID": func(fr *Frame, a []Value) Value {
			if fr.it.sched == nil || fr.it.sched.cur == nil {
				return uint64(0)
			}
			return uint64(fr.it.sched.cur.id)
		},
		"verifLockHeld": func(fr *Frame, a []Value) Value {
			e := fr.it.env
			n, ok := e.nodes[clean(concStr(a[0], "verifLockHeld"))]
			if !ok || n.isDir {
				return false
			}
			l, ok := e.locks[fmt.Sprintf("ino:%d", n.file.ino)]
			return ok && l.held
		},
		"verifFailAt": func(fr *Frame, a []Value) Value {
			e := fr.it.env
			e.failAt = int(int64(a[0].(uint64)))
			e.nFSCall = 0
			return nil
		},
		"verifFSCalls": func(fr *Frame, a []Value) Value { return uint64(fr.it.env.nFSCall) },
		"verifJoin": func(fr *Frame, a []Value) Value {
			fr.it.sched.joinAll()
			return nil
		},
		"verifPermuteMaps": func(fr *Frame, a []Value) Value {
			fr.it.permuteMaps = a[0].(bool)
			return nil
		},
		"verifCorrupt": func(fr *Frame, a []Value) Value {
			// verifCorrupt(path, off, byteValue): overwrite one byte of a file behind the engine's back
			it := fr.it
			n, ok := it.env.lookupFile(concStr(a[0], "verifCorrupt"))
			if !ok || n.isDir {
				panic(abort{st: StDiscard, msg: "verifCorrupt: no such file"})
			}
			off := int(it.concInt(a[1], "verifCorrupt offset"))
			if off < 0 || off >= n.file.size {
				panic(abort{st: StDiscard, msg: "verifCorrupt: offset beyond file"})
			}
			n.file.cells[off] = a[2]
			return nil
		},
		"verifFSTruncate": func(fr *Frame, a []Value) Value {
			it := fr.it
			n, ok := it.env.lookupFile(concStr(a[0], "verifFSTruncate"))
			if !ok || n.isDir {
				panic(abort{st: StDiscard, msg: "verifFSTruncate: no such file"})
			}
			sz := int(it.concInt(a[1], "verifFSTruncate size"))
			if sz < 0 || sz > n.file.size {
				panic(abort{st: StDiscard, msg: "verifFSTruncate: size out of range"})
			}
			n.file.truncate(it.env, sz)
			n.file.syncedLen = sz
			return nil
		},
		"verifFSWrite": func(fr *Frame, a []Value) Value {
			// create/replace a file with the given bytes (environment action, not a logged op)
			it := fr.it
			e := it.env
			p := clean(concStr(a[0], "verifFSWrite"))
			if !e.parentExists(p) {
				saveArm := e.crashArm
				e.crashArm = false
				e.mkdirAll(p[:strings.LastIndex(p, "/")])
				e.crashArm = saveArm
			}
			f := e.newFile()
			b := a[1].([]Value)
			f.ensureCap(e, len(b))
			copy(f.cells, b)
			f.size = len(b)
			f.syncedLen = len(b)
			e.nodes[p] = &FSNode{file: f, mode: 0644}
			return nil
		},
	} {
		intrinsics[k] = v
	}
}

// ReplayLog is what a native replay needs besides the variable model.
type ReplayLog struct {
	Files map[string][]byte // FS image at the time of the violation (evaluated under the model)
	Notes map[string]string
}

// snapshotForReplay renders the FS image a native replay starts from: the image at the first checkpoint
// if the harness declared one, else the current one. Checksum variables are first replaced by the real
// CRC-32 of their coverage under the model, so that the real decoder accepts what the ideal one accepted.
func (it *Interp) snapshotForReplay(m smt.Model) {
	if m == nil {
		return
	}
	it.rekeyForRealHash(m)
	it.patchCRC(m)
	cells := it.ckptFS
	if cells == nil {
		cells = it.env.copyCells()
	}
	files := map[string][]byte{}
	memo := map[*smt.Term]uint64{}
	for p, cs := range cells {
		if cs == nil {
			files[p] = nil
			continue
		}
		b := make([]byte, len(cs))
		for i, c := range cs {
			switch c := c.(type) {
			case uint64:
				b[i] = byte(c)
			case *smt.Term:
				b[i] = byte(smt.Eval(c, m, memo))
			}
		}
		files[p] = b
	}
	it.replay = &ReplayLog{Files: files}
}

// patchCRC overwrites the model values of checksum variables with real CRC-32 values.
func (it *Interp) patchCRC(m smt.Model) {
	if it.crcTab == nil {
		return
	}
	for _, app := range it.crcTab.apps {
		v, ok := app.res.(*smt.Term)
		if !ok {
			continue
		}
		memo := map[*smt.Term]uint64{}
		bs := make([]byte, len(app.args))
		for i, a := range app.args {
			switch a := a.(type) {
			case uint64:
				bs[i] = byte(a)
			case *smt.Term:
				bs[i] = byte(smt.Eval(a, m, memo))
			}
		}
		it.forgeOrPatch(m, app, v, bs)
	}
}

func isDigit(c byte) bool { return c >= '0' && c <= '9' }

func sortedChoiceKeys(m map[string]uint64) []string {
	ks := make([]string, 0, len(m))
	for k := range m {
		ks = append(ks, k)
	}
	sort.Strings(ks)
	return ks
}
