package sx

import (
	"fmt"
	"go/types"
	"path/filepath"
	"sort"
	"strings"

	"gosx/smt"
)

// ---------- in-memory POSIX-like file system with op log, crash points and an mmap view model ----------

type sigbus struct{} // poison for mapped cells beyond the (page-rounded) end of file

type crashSignal struct{}

type EnvOpts struct {
	PageSize int // mmap model page size (4096 real, 16 scaled)
}

type FSFile struct {
	cells     []Value // backing cells (len == capacity); bytes [0,size) are the file
	size      int
	syncedLen int
	mapped    bool // ever mapped: cells must stay stable
	ino       int
	// per-write provenance for C13: byte ranges not yet synced, with the public-call tag that wrote them
	unsynced []writeRange
	shadow   []Value // mapped files: cell contents at the last msync (or at mapping time)
	mtags    []string // mapped files: tag charged with each dirty cell (see attributeMapped)
	mtime    int      // logical modification time (Env.mclock at the last create/write/truncate)
}

type writeRange struct {
	off, n int
	tag    string
}

type FSNode struct {
	isDir bool
	file  *FSFile
	mode  uint64
}

type FSOp struct {
	Kind  string // create mkdir write sync close truncate remove rename lock unlock
	Path  string
	Path2 string
	N     int
	Off   int
	Tag   string
	Thr   int // interpreted goroutine that issued the operation
}

type openFile struct {
	path   string
	node   *FSNode
	app    bool
	closed bool
	pos    int
}

type flockState struct {
	path string
	held bool
}

type Env struct {
	tick     int // harness logical clock (verifTick)
	mclock   int // logical clock of file modification times
	it       *Interp
	opts     EnvOpts
	nodes    map[string]*FSNode
	ops      []FSOp
	locks    map[string]*flockState // path -> current holder
	crashArm bool
	crashed  bool
	nCrashPt int
	anyMmap  bool
	inoSeq   int
	tag      string // current public-call tag (set by harness)
	failAt   int    // inject an error at the k-th FS call (C16), -1 = never
	nFSCall  int
	now      Value // current instant (int64 ns): uint64 or term
	nowSeq   int
	sfMs     int64
	sfUsed   bool
	written  map[string]int // bytes written per public-call tag
	nCrash   int
	nTorn    int // files that lost a non-empty tail in the last power-loss crash
	errs     map[string]Iface
	frozen   bool // after a crash: FS of the dead process is read-only for late threads
}

func newEnv(it *Interp, o EnvOpts) *Env {
	if o.PageSize == 0 {
		o.PageSize = 16
	}
	e := &Env{it: it, opts: o, nodes: map[string]*FSNode{"/": {isDir: true, mode: 0777}}, locks: map[string]*flockState{},
		failAt: -1, errs: map[string]Iface{}, sfMs: 1_700_000_000_000}
	e.now = uint64(clockT0)
	return e
}

const clockT0 = int64(1_790_000_000_000_000_000) // 2026-09 in ns

func clean(p string) string {
	p = filepath.Clean(p)
	if !strings.HasPrefix(p, "/") {
		p = "/cwd/" + p
	}
	return p
}

func (e *Env) log(op FSOp) {
	op.Tag = e.tag
	if e.it.sched != nil && e.it.sched.cur != nil {
		op.Thr = e.it.sched.cur.id
	}
	// modification times: a logical clock that ticks with every mutating FS operation (rename keeps the file's)
	switch op.Kind {
	case "create", "write", "truncate":
		e.mclock++
		if n, ok := e.nodes[clean(op.Path)]; ok && !n.isDir && n.file != nil {
			n.file.mtime = e.mclock
		}
	}
	e.ops = append(e.ops, op)
}

// mutating FS operations are crash points and switch points.
func (e *Env) beforeMutation(desc string) {
	e.it.sched.yield("fs:" + desc)
	if e.crashArm && !e.crashed {
		e.nCrashPt++
		if e.it.path.Choice(2) == 1 {
			e.nCrash++
			e.it.path.notes[fmt.Sprintf("crash%d_before", e.nCrash)] = fmt.Sprintf("%s (fs op #%d)", desc, len(e.ops))
			panic(crashSignal{})
		}
	}
}

func (e *Env) errVal(msg string) Iface {
	if v, ok := e.errs[msg]; ok {
		return v
	}
	v := e.it.makeError(msg)
	e.errs[msg] = v
	return v
}

func (e *Env) errNotExist() Iface { return e.it.fsSentinel("ErrNotExist") }
func (e *Env) errExist() Iface    { return e.it.fsSentinel("ErrExist") }

// fsSentinel returns io/fs.ErrNotExist etc. (the values os.ErrNotExist aliases), so that comparisons with the
// sentinels and errors.Is behave as with the real os package.
func (it *Interp) fsSentinel(name string) Iface {
	fsp := it.P.Pkgs["io/fs"]
	if fsp == nil {
		return it.env.errVal(name)
	}
	if !it.inited[fsp] {
		call(it, nil, 0, fsp.Func("init"), nil)
	}
	g := fsp.Var(name)
	if g == nil {
		return it.env.errVal(name)
	}
	v, _ := (*it.globalAddr(g)).(Iface)
	if v.T == nil {
		return it.env.errVal(name)
	}
	return v
}
func (e *Env) errClosed() Iface   { return e.errVal("file already closed") }
func (e *Env) errInjected() Iface { return e.errVal("input/output error (injected)") }

// injectFail reports whether this FS call should fail (C16 only).
func (e *Env) injectFail() bool {
	e.nFSCall++
	return e.failAt >= 0 && e.nFSCall-1 == e.failAt
}

func (e *Env) parentExists(p string) bool {
	d := filepath.Dir(p)
	n, ok := e.nodes[d]
	return ok && n.isDir
}

func (e *Env) mkdirAll(p string) Value {
	p = clean(p)
	if n, ok := e.nodes[p]; ok {
		if n.isDir {
			return Iface{}
		}
		return e.errVal("not a directory")
	}
	// create parents
	var missing []string
	for q := p; q != "/"; q = filepath.Dir(q) {
		if n, ok := e.nodes[q]; ok {
			if !n.isDir {
				return e.errVal("not a directory")
			}
			break
		}
		missing = append(missing, q)
	}
	for i := len(missing) - 1; i >= 0; i-- {
		e.beforeMutation("mkdir " + missing[i])
		e.nodes[missing[i]] = &FSNode{isDir: true, mode: 0777}
		e.log(FSOp{Kind: "mkdir", Path: missing[i]})
	}
	return Iface{}
}

func (e *Env) newFile() *FSFile {
	e.inoSeq++
	return &FSFile{ino: e.inoSeq}
}

func (f *FSFile) ensureCap(e *Env, n int) {
	if n <= len(f.cells) {
		return
	}
	if f.mapped {
		panic(abort{st: StUnsupported, msg: fmt.Sprintf("mapped file grows beyond modelled capacity (%d > %d)", n, len(f.cells))})
	}
	c := len(f.cells) * 2
	if c < 256 {
		c = 256
	}
	for c < n {
		c *= 2
	}
	nc := make([]Value, c)
	copy(nc, f.cells)
	z := Value(uint64(0))
	for i := len(f.cells); i < c; i++ {
		nc[i] = z
	}
	f.cells = nc
}

func (e *Env) pageUp(n int) int {
	ps := e.opts.PageSize
	return (n + ps - 1) / ps * ps
}

func (f *FSFile) truncate(e *Env, n int) {
	if n > f.size {
		f.ensureCap(e, n)
		for i := f.size; i < n; i++ {
			f.cells[i] = uint64(0)
		}
		// anything beyond the new size that was poisoned stays poisoned up to its page
		f.size = n
		if f.mapped {
			f.repoison(e)
		}
		return
	}
	old := f.size
	f.size = n
	if f.syncedLen > n {
		f.syncedLen = n
	}
	var keep []writeRange
	for _, r := range f.unsynced {
		if r.off >= n {
			continue
		}
		if r.off+r.n > n {
			r.n = n - r.off
		}
		keep = append(keep, r)
	}
	f.unsynced = keep
	pu := e.pageUp(n)
	for i := n; i < old && i < len(f.cells); i++ {
		if f.mapped && i >= pu {
			f.cells[i] = sigbus{}
		} else {
			f.cells[i] = uint64(0)
		}
	}
}

// repoison: cells beyond the page-rounded size are inaccessible through mappings; cells inside are plain.
func (f *FSFile) repoison(e *Env) {
	pu := e.pageUp(f.size)
	for i := f.size; i < len(f.cells); i++ {
		_, isBus := f.cells[i].(sigbus)
		if i < pu {
			if isBus {
				f.cells[i] = uint64(0)
			}
		}
	}
}

func (e *Env) lookupFile(p string) (*FSNode, bool) {
	n, ok := e.nodes[clean(p)]
	return n, ok
}

// ---------- externals: os ----------

const (
	oRDONLY = 0x0
	oWRONLY = 0x1
	oRDWR   = 0x2
	oAPPEND = 0x400
	oCREATE = 0x40
	oEXCL   = 0x80
	oTRUNC  = 0x200
)

func hostPtr(kind string, x interface{}) *Value {
	var v Value = &HostObj{Kind: kind, X: x}
	return &v
}

func hostOf(v Value, kind string) *HostObj {
	p, ok := v.(*Value)
	if !ok || p == nil {
		return nil
	}
	h, ok := (*p).(*HostObj)
	if !ok || h.Kind != kind {
		return nil
	}
	return h
}

func concStr(v Value, what string) string {
	s, ok := v.(string)
	if !ok {
		panic(abort{st: StUnsupported, msg: "symbolic string passed to " + what})
	}
	return s
}

func (e *Env) openFile(name string, flag int) Value {
	p := clean(name)
	e.it.sched.yield("fs:open")
	if e.injectFail() {
		return Tuple{(*Value)(nil), e.errInjected()}
	}
	n, ok := e.nodes[p]
	if !ok {
		if flag&oCREATE == 0 || !e.parentExists(p) {
			return Tuple{(*Value)(nil), e.errNotExist()}
		}
		e.beforeMutation("create " + p)
		// open(O_CREATE) is atomic: another thread may have created the file at the switch point above
		if n2, ok := e.nodes[p]; ok {
			n = n2
		} else {
			n = &FSNode{file: e.newFile(), mode: 0644}
			e.nodes[p] = n
			e.log(FSOp{Kind: "create", Path: p})
		}
	} else if n.isDir {
		if flag&(oWRONLY|oRDWR) != 0 {
			return Tuple{(*Value)(nil), e.errVal("is a directory")}
		}
	} else if flag&oTRUNC != 0 {
		e.beforeMutation("truncate(open) " + p)
		n.file.truncate(e, 0)
		e.log(FSOp{Kind: "truncate", Path: p, N: 0})
	}
	of := &openFile{path: p, node: n, app: flag&oAPPEND != 0}
	return Tuple{hostPtr("file", of), Iface{}}
}

func (e *Env) fileOf(v Value) *openFile {
	h := hostOf(v, "file")
	if h == nil {
		e.it.rtPanic("invalid memory address or nil pointer dereference (nil *os.File)")
	}
	return h.X.(*openFile)
}

func (e *Env) write(of *openFile, b []Value) Value {
	if of.closed {
		return Tuple{uint64(0), e.errClosed()}
	}
	if e.injectFail() {
		return Tuple{uint64(0), e.errInjected()}
	}
	e.beforeMutation(fmt.Sprintf("write %s (%d bytes)", of.path, len(b)))
	f := of.node.file
	off := of.pos
	if of.app {
		off = f.size
	}
	f.ensureCap(e, off+len(b))
	if off > f.size {
		for i := f.size; i < off; i++ {
			f.cells[i] = uint64(0)
		}
	}
	copy(f.cells[off:], b)
	if off+len(b) > f.size {
		f.size = off + len(b)
	}
	of.pos = off + len(b)
	if len(b) > 0 {
		f.unsynced = append(f.unsynced, writeRange{off, len(b), e.tag})
		if e.written == nil {
			e.written = map[string]int{}
		}
		e.written[e.tag] += len(b)
	}
	e.log(FSOp{Kind: "write", Path: of.path, Off: off, N: len(b)})
	return Tuple{uint64(len(b)), Iface{}}
}

func (e *Env) readAt(of *openFile, b []Value, off int64) Value {
	if of.closed {
		return Tuple{uint64(0), e.errClosed()}
	}
	e.it.sched.yield("fs:read")
	if off < 0 {
		return Tuple{uint64(0), e.errVal("negative offset")}
	}
	f := of.node.file
	n := 0
	if int(off) < f.size {
		n = copy(b, f.cells[off:f.size])
	}
	if n < len(b) {
		return Tuple{uint64(n), e.it.ioEOF()}
	}
	return Tuple{uint64(n), Iface{}}
}

func (e *Env) syncFile(of *openFile) Value {
	if of.closed {
		return e.errClosed()
	}
	if e.injectFail() {
		return e.errInjected()
	}
	e.beforeMutation("sync " + of.path)
	f := of.node.file
	f.syncedLen = f.size
	f.unsynced = nil
	e.log(FSOp{Kind: "sync", Path: of.path, N: f.size})
	return Iface{}
}

func (e *Env) closeFile(of *openFile) Value {
	if of.closed {
		return e.errClosed()
	}
	e.beforeMutation("close " + of.path)
	of.closed = true
	e.log(FSOp{Kind: "close", Path: of.path})
	return Iface{}
}

func (e *Env) remove(name string) Value {
	p := clean(name)
	n, ok := e.nodes[p]
	if !ok {
		return e.errNotExist()
	}
	if e.injectFail() {
		return e.errInjected()
	}
	if n.isDir {
		for q := range e.nodes {
			if strings.HasPrefix(q, p+"/") {
				return e.errVal("directory not empty")
			}
		}
	}
	e.beforeMutation("remove " + p)
	delete(e.nodes, p)
	e.log(FSOp{Kind: "remove", Path: p})
	return Iface{}
}

func (e *Env) children(p string) []string {
	var out []string
	pre := p + "/"
	if p == "/" {
		pre = "/"
	}
	for q := range e.nodes {
		if q != p && strings.HasPrefix(q, pre) && !strings.Contains(q[len(pre):], "/") {
			out = append(out, q)
		}
	}
	sort.Strings(out)
	return out
}

func (e *Env) removeAll(name string) Value {
	p := clean(name)
	n, ok := e.nodes[p]
	if !ok {
		return Iface{}
	}
	if e.injectFail() {
		return e.errInjected()
	}
	if n.isDir {
		kids := e.children(p)
		// unlink order is not specified: choice point over permutations when it matters (crash armed)
		if e.crashArm && !e.crashed && len(kids) > 1 {
			perm := make([]string, 0, len(kids))
			rest := append([]string(nil), kids...)
			for len(rest) > 1 {
				k := e.it.path.Choice(len(rest))
				perm = append(perm, rest[k])
				rest = append(rest[:k], rest[k+1:]...)
			}
			kids = append(perm, rest...)
		}
		for _, k := range kids {
			if r := e.removeAll(k); r.(Iface).T != nil {
				return r
			}
		}
	}
	e.beforeMutation("remove " + p)
	delete(e.nodes, p)
	e.log(FSOp{Kind: "remove", Path: p})
	return Iface{}
}

func (e *Env) rename(a, b string) Value {
	pa, pb := clean(a), clean(b)
	n, ok := e.nodes[pa]
	if !ok {
		return e.errNotExist()
	}
	if e.injectFail() {
		return e.errInjected()
	}
	if !e.parentExists(pb) {
		return e.errNotExist()
	}
	e.beforeMutation("rename " + pa + " -> " + pb)
	if n.isDir {
		for q, qn := range e.nodes {
			if strings.HasPrefix(q, pa+"/") {
				delete(e.nodes, q)
				e.nodes[pb+q[len(pa):]] = qn
			}
		}
	}
	delete(e.nodes, pa)
	e.nodes[pb] = n
	e.log(FSOp{Kind: "rename", Path: pa, Path2: pb})
	return Iface{}
}

// fileInfo values: Iface{T: *os.fileStat, V: ptr to HostObj}
type statInfo struct {
	name  string
	size  int
	isDir bool
	mode  uint64
	mtime int
}

func (e *Env) statValue(p string, n *FSNode) Value {
	si := &statInfo{name: filepath.Base(p), isDir: n.isDir, mode: n.mode}
	if n.isDir {
		si.mode |= 1 << 31
	} else {
		si.size = n.file.size
		si.mtime = n.file.mtime
	}
	return Iface{T: e.it.namedPtrType("os", "fileStat"), V: hostPtr("stat", si)}
}

func (e *Env) stat(name string) Value {
	p := clean(name)
	e.it.sched.yield("fs:stat")
	if e.injectFail() {
		return Tuple{Iface{}, e.errInjected()}
	}
	n, ok := e.nodes[p]
	if !ok {
		return Tuple{Iface{}, e.errNotExist()}
	}
	return Tuple{e.statValue(p, n), Iface{}}
}

func (it *Interp) namedPtrType(pkg, name string) types.Type {
	sp := it.P.Pkgs[pkg]
	if sp == nil {
		panic(abort{st: StUnsupported, msg: "package not loaded: " + pkg})
	}
	m := sp.Type(name)
	if m == nil {
		panic(abort{st: StUnsupported, msg: "type not found: " + pkg + "." + name})
	}
	return types.NewPointer(m.Type())
}

func (it *Interp) namedType(pkg, name string) types.Type {
	sp := it.P.Pkgs[pkg]
	if sp == nil {
		panic(abort{st: StUnsupported, msg: "package not loaded: " + pkg})
	}
	m := sp.Type(name)
	if m == nil {
		panic(abort{st: StUnsupported, msg: "type not found: " + pkg + "." + name})
	}
	return m.Type()
}

// makeError builds an *errors.errorString value.
func (it *Interp) makeError(msg string) Iface {
	var cell Value = Struct{msg}
	return Iface{T: it.namedPtrType("errors", "errorString"), V: &cell}
}

func (it *Interp) ioEOF() Iface {
	iop := it.P.Pkgs["io"]
	if !it.inited[iop] {
		call(it, nil, 0, iop.Func("init"), nil)
	}
	g := iop.Var("EOF")
	return (*it.globalAddr(g)).(Iface)
}

// ---------- crash images ----------

// applyCrash turns the current FS into the post-crash image. powerLoss: every file is cut to a
// solver-chosen length between its synced length and its size.
func (e *Env) applyCrash(powerLoss bool) {
	e.crashed = true
	e.crashArm = false
	e.nTorn = 0
	e.locks = map[string]*flockState{}
	paths := make([]string, 0, len(e.nodes))
	for p := range e.nodes {
		paths = append(paths, p)
	}
	sort.Strings(paths)
	for _, p := range paths {
		n := e.nodes[p]
		if n.isDir {
			continue
		}
		f := n.file
		wasMapped := f.mapped
		if powerLoss && wasMapped {
			// power loss with a live mapping: the not-yet-synced tail of the file is everything from the first byte
			// stored through the mapping since the last msync. As for ordinary files (and as the property words
			// it) the file is CUT to a solver-chosen byte length inside that tail, or keeps everything.
			// NOT modelled (outside the property's fault model, see DESIGN 11.3): lost pages reading back as zeros
			// inside a file that keeps its preallocated length.
			lo, hi := -1, -1
			for i := 0; i < len(f.cells) && i < len(f.shadow) && i < f.size; i++ {
				if f.mappedDirty(i) {
					if lo < 0 {
						lo = i
					}
					hi = i + 1
				}
			}
			if lo >= 0 {
				st := e.it.st()
				name := e.it.path.FreshName("cut:" + p)
				t := st.Var(name, 32)
				e.it.path.Assume(st.And(st.Cmp(smt.OpUle, st.Const(32, uint64(lo)), t), st.Cmp(smt.OpUle, t, st.Const(32, uint64(hi)))))
				cut := int(e.it.path.Concretize(t, "power-loss cut of mapped "+p))
				e.it.path.notes["cut "+p] = fmt.Sprintf("mapped: unsynced stores in %d..%d, cut at %d", lo, hi, cut)
				if cut < hi {
					e.nTorn++
					for i := cut; i < len(f.cells); i++ {
						f.cells[i] = uint64(0)
					}
					f.size = cut
				}
			}
		}
		f.mapped = false
		for i := range f.cells {
			if _, ok := f.cells[i].(sigbus); ok {
				f.cells[i] = uint64(0)
			}
		}
		if powerLoss && !wasMapped && f.syncedLen < f.size {
			st := e.it.st()
			name := e.it.path.FreshName("cut:" + p)
			t := st.Var(name, 32)
			e.it.path.Assume(st.And(st.Cmp(smt.OpUle, st.Const(32, uint64(f.syncedLen)), t), st.Cmp(smt.OpUle, t, st.Const(32, uint64(f.size)))))
			cut := int(e.it.path.Concretize(t, "power-loss cut of "+p))
			e.it.path.notes["cut "+p] = fmt.Sprintf("%d of %d (synced %d)", cut, f.size, f.syncedLen)
			if cut < f.size {
				e.nTorn++
			}
			for i := cut; i < f.size; i++ {
				f.cells[i] = uint64(0)
			}
			f.size = cut
		}
		f.syncedLen = f.size
		f.unsynced = nil
	}
}

// snapshotFS renders the FS under a model (for replay): path -> bytes.
func (e *Env) snapshot(m smt.Model) map[string][]byte {
	out := map[string][]byte{}
	memo := map[*smt.Term]uint64{}
	for p, n := range e.nodes {
		if n.isDir {
			out[p+"/"] = nil
			continue
		}
		b := make([]byte, n.file.size)
		for i := 0; i < n.file.size; i++ {
			switch c := n.file.cells[i].(type) {
			case uint64:
				b[i] = byte(c)
			case *smt.Term:
				b[i] = byte(smt.Eval(c, m, memo))
			}
		}
		out[p] = b
	}
	return out
}

// copyCells snapshots the FS: path -> copy of the file's cells (nil for directories, keyed with a trailing slash).
func (e *Env) copyCells() map[string][]Value {
	out := map[string][]Value{}
	for p, n := range e.nodes {
		if n.isDir {
			out[p+"/"] = nil
			continue
		}
		out[p] = append([]Value{}, n.file.cells[:n.file.size]...)
	}
	return out
}

// mappedUnsynced counts bytes of a mapped file that changed since the last msync (writes through a mapping
// are invisible to the op log; zero bytes written over zero bytes are not counted).
func (f *FSFile) mappedUnsynced() int {
	if !f.mapped {
		return 0
	}
	n := 0
	for i := 0; i < len(f.cells) && i < len(f.shadow); i++ {
		if _, bus := f.cells[i].(sigbus); bus {
			continue
		}
		if _, bus := f.shadow[i].(sigbus); bus {
			if c, ok := f.cells[i].(uint64); ok && c == 0 {
				continue
			}
			n++
			continue
		}
		if f.cells[i] != f.shadow[i] {
			n++
		}
	}
	return n
}

func (f *FSFile) takeShadow() {
	f.shadow = append(f.shadow[:0], f.cells...)
	f.mtags = nil
}

func (f *FSFile) mappedDirty(i int) bool {
	if _, bus := f.cells[i].(sigbus); bus {
		return false
	}
	if _, bus := f.shadow[i].(sigbus); bus {
		if c, ok := f.cells[i].(uint64); ok && c == 0 {
			return false
		}
		return true
	}
	return f.cells[i] != f.shadow[i]
}

// attributeMapped: stores through a mapping are plain memory writes, so they carry no tag when they happen.
// Whenever the harness changes the tag (and before every query) the cells that became dirty since the last
// attribution are charged to the tag that was active meanwhile.
func (f *FSFile) attributeMapped(tag string) {
	if !f.mapped {
		return
	}
	if tag == "" {
		tag = "-"
	}
	for i := 0; i < len(f.cells) && i < len(f.shadow); i++ {
		if !f.mappedDirty(i) {
			continue
		}
		for len(f.mtags) <= i {
			f.mtags = append(f.mtags, "")
		}
		if f.mtags[i] == "" {
			f.mtags[i] = tag
		}
	}
}

// mappedUnsyncedTag counts dirty mapped bytes charged to tags matching the prefix (same rule as for written ranges).
func (f *FSFile) mappedUnsyncedTag(pre string) int {
	if !f.mapped {
		return 0
	}
	n := 0
	for i := 0; i < len(f.cells) && i < len(f.shadow); i++ {
		if !f.mappedDirty(i) {
			continue
		}
		t := ""
		if i < len(f.mtags) {
			t = f.mtags[i]
		}
		if pre == "" || (strings.HasPrefix(t, pre) && (t == pre || isDigit(t[len(pre)]))) {
			n++
		}
	}
	return n
}
