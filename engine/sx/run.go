package sx

import (
	"bytes"
	"fmt"
	"go/types"
	"os"
	"runtime"
	"runtime/debug"
	"sort"
	"strings"
	"sync"
	"time"

	"golang.org/x/tools/go/packages"
	"golang.org/x/tools/go/ssa"
	"golang.org/x/tools/go/ssa/ssautil"

	"gosx/smt"
)

// Load builds SSA for the repo packages with the given overlay (virtual path -> content).
func Load(repoDir string, patterns []string, overlay map[string][]byte) (*Program, error) {
	cfg := &packages.Config{
		Mode:    packages.LoadAllSyntax | packages.NeedModule,
		Dir:     repoDir,
		Overlay: overlay,
		Env: append(os.Environ(), "GOFLAGS=-mod=mod", "GOPROXY=off", "GOSUMDB=off", "GOTOOLCHAIN=local",
			"GOWORK=off", "CGO_ENABLED=0"),
	}
	pkgs, err := packages.Load(cfg, patterns...)
	if err != nil {
		return nil, err
	}
	var errs []string
	packages.Visit(pkgs, nil, func(p *packages.Package) {
		for _, e := range p.Errors {
			errs = append(errs, e.Error())
		}
	})
	if len(errs) > 0 {
		return nil, fmt.Errorf("load errors:\n%s", strings.Join(errs, "\n"))
	}
	prog, spkgs := ssautil.AllPackages(pkgs, ssa.InstantiateGenerics)
	prog.Build()
	P := &Program{Prog: prog, Pkgs: map[string]*ssa.Package{}}
	for _, sp := range prog.AllPackages() {
		P.Pkgs[sp.Pkg.Path()] = sp
	}
	if len(spkgs) > 0 && pkgs[0].Module != nil {
		P.ModulePath = pkgs[0].Module.Path
	}
	rt := prog.ImportedPackage("runtime")
	if rt == nil {
		return nil, fmt.Errorf("runtime package not loaded")
	}
	P.runtimeErr = rt.Type("errorString").Object().Type()
	P.Sizes = types.SizesFor("gc", "amd64")
	mod := P.ModulePath
	P.InitOK = func(path string) bool {
		if path == mod || strings.HasPrefix(path, mod+"/") {
			return true
		}
		switch path {
		case "github.com/valyala/bytebufferpool", "github.com/google/btree", "github.com/huandu/skiplist",
			"io", "container/heap", "sort", "slices", "encoding/binary", "bytes", "math/bits",
			"internal/itoa", "internal/oserror", "io/fs", "unicode/utf8", "cmp", "internal/byteorder":
			return true
		}
		return false
	}
	return P, nil
}

type Job struct {
	Name       string
	Pkg        string // import path of the package holding the harness
	Func       string // harness function name
	Params     map[string]int64
	Limits     Limits
	EnvOpts    EnvOpts
	Known      map[string]bool
	CrossCheck bool // record solver transcripts and re-decide every query with z3-new and cvc5
}

// RunJob explores every path of the harness.
func (P *Program) RunJob(job *Job) *JobResult {
	debug.SetGCPercent(600)
	t0 := time.Now()
	res := &JobResult{Name: job.Name, Counts: map[Status]int{}, Reach: map[string]int{}, Funcs: map[string]bool{}, KnownHits: map[string]int{}}
	pkg := P.Pkgs[job.Pkg]
	if pkg == nil {
		res.Incomplete = "package not found: " + job.Pkg
		return res
	}
	fn := pkg.Func(job.Func)
	if fn == nil {
		res.Incomplete = "harness not found: " + job.Func
		return res
	}
	lim := job.Limits
	if lim.Workers <= 0 {
		lim.Workers = runtime.NumCPU()
	}
	if lim.MaxSteps == 0 {
		lim.MaxSteps = 5_000_000
	}
	if lim.ConcCap == 0 {
		lim.ConcCap = 64
	}
	if lim.QueryMs == 0 {
		lim.QueryMs = 10000
	}
	if lim.SolverKind == "" {
		lim.SolverKind = "z3"
	}
	ex := newExplorer(&lim)
	ex.push(WorkItem{})
	var mu sync.Mutex
	seen := map[string]bool{}
	var wg sync.WaitGroup
	total := 0
	for w := 0; w < lim.Workers; w++ {
		wg.Add(1)
		go func() {
			defer wg.Done()
			sol, err := smt.NewSolver(lim.SolverKind, lim.QueryMs)
			if err != nil {
				mu.Lock()
				res.Incomplete = "cannot start solver: " + err.Error()
				mu.Unlock()
				ex.stop()
				return
			}
			sol.Assuming = os.Getenv("VERIF_ASSUMING") == "1"
			var transcript *bytes.Buffer
			if job.CrossCheck {
				transcript = &bytes.Buffer{}
				transcript.WriteString("(set-option :produce-models true)\n(set-logic ALL)\n")
				sol.LogTo = transcript
			}
			defer func() {
				if transcript != nil && !sol.Dead() {
					answers := append([]smt.Result(nil), sol.Answers...)
					for _, other := range []string{"z3-new", "cvc5"} {
						got, err := smt.ReplayTranscript(other, transcript.Bytes(), 10*time.Minute)
						mu.Lock()
						if err != nil {
							res.CrossErrors = append(res.CrossErrors, other+": "+err.Error())
						} else {
							n := len(answers)
							if len(got) != n {
								res.CrossErrors = append(res.CrossErrors, fmt.Sprintf("%s answered %d of %d queries", other, len(got), n))
								if len(got) < n {
									n = len(got)
								}
							}
							for i := 0; i < n; i++ {
								res.CrossQueries++
								if got[i] != answers[i] && got[i] != smt.Unknown && answers[i] != smt.Unknown {
									res.CrossDisagreements++
								}
							}
						}
						mu.Unlock()
					}
				}
				sol.Close()
			}()
			for {
				item, ok := ex.pop()
				if !ok {
					break
				}
				if sol.Dead() {
					sol.Close()
					sol, err = smt.NewSolver(lim.SolverKind, lim.QueryMs)
					if err != nil {
						ex.done()
						ex.stop()
						break
					}
				}
				pr := P.runPath(job, fn, item, sol, ex, &lim)
				mu.Lock()
				total++
				res.Counts[pr.Status]++
				res.Steps += pr.Steps
				res.Decisions += int64(len(pr.Trace))
				res.Verdicts += pr.Verdicts
				for _, r := range pr.Reach {
					res.Reach[r]++
				}
				for _, k := range pr.KnownHits {
					res.KnownHits[k]++
				}
				for f := range pr.Funcs {
					res.Funcs[f] = true
				}
				pr.Funcs = nil
				ts := traceString(pr.Trace)
				if !seen[ts] {
					seen[ts] = true
					if pr.Status != StDiscard {
						res.Distinct++
						// non-trivial: the solver decided something on this path (a branch, a concretisation, a verdict)
						solverDecided := pr.Verdicts > 0
						for _, d := range pr.Trace {
							if d.K != DChoice {
								solverDecided = true
								break
							}
						}
						if solverDecided {
							res.DistinctNontrivial++
						}
					}
				}
				switch pr.Status {
				case StOK:
					if pr.Uncertain {
						res.UncertainOK++
					}
					if len(res.OKSamples) < 8 && pr.Model != nil {
						res.OKSamples = append(res.OKSamples, pr)
						if len(res.OKSamples) >= 8 {
							ex.okModels.Store(false)
						}
					}
				case StDiscard:
				default:
					if len(res.Paths) < 200 {
						res.Paths = append(res.Paths, pr)
					}
				}
				stop := false
				if pr.Status == StViolation && lim.MaxViolations > 0 && res.Counts[StViolation] >= lim.MaxViolations {
					stop = true
					res.StoppedOnViolations = true
					if res.Incomplete == "" {
						res.Incomplete = fmt.Sprintf("stopped after %d violating paths", res.Counts[StViolation])
					}
				}
				if pr.Status == StViolation && lim.StopOnFirst {
					stop = true
					res.Incomplete = "stopped at first violation"
				}
				if lim.MaxPaths > 0 && total >= lim.MaxPaths {
					stop = true
					res.Incomplete = fmt.Sprintf("path cap %d reached with %d prefixes pending", lim.MaxPaths, ex.pending())
				}
				if !lim.Deadline.IsZero() && time.Now().After(lim.Deadline) {
					stop = true
					res.Incomplete = fmt.Sprintf("time budget reached with %d prefixes pending", ex.pending())
				}
				mu.Unlock()
				ex.done()
				if stop {
					ex.stop()
					break
				}
			}
			mu.Lock()
			st := sol.Stats
			res.Queries.Queries += st.Queries
			res.Queries.Sat += st.Sat
			res.Queries.Unsat += st.Unsat
			res.Queries.Unknown += st.Unknown
			res.Queries.Errors += st.Errors
			res.Queries.Time += st.Time
			if st.MaxQuery > res.Queries.MaxQuery {
				res.Queries.MaxQuery = st.MaxQuery
			}
			mu.Unlock()
		}()
	}
	wg.Wait()
	res.Wall = time.Since(t0)
	sort.SliceStable(res.Paths, func(i, j int) bool { return res.Paths[i].Status < res.Paths[j].Status })
	return res
}

func (P *Program) runPath(job *Job, fn *ssa.Function, item WorkItem, sol *smt.Solver, ex *Explorer, lim *Limits) (pr *PathResult) {
	st := smt.NewStore()
	p := &Path{St: st, Sol: sol, ex: ex, prefix: item.Prefix, lim: lim, uncertain: item.Uncertain,
		reach: map[string]bool{}, notes: map[string]string{}, occ: map[string]int{}, choices: map[string]uint64{},
		funcs: map[string]bool{}, funcSet: map[*fnInfo]struct{}{}}
	if item.Model != nil {
		p.setModel(item.Model)
	}
	it := &Interp{P: P, path: p, globals: map[*ssa.Global]*Value{}, inited: map[*ssa.Package]bool{},
		parentOf: map[*Value]*Value{}, params: job.Params, hostSide: map[*Value]interface{}{}, known: job.Known}
	it.env = newEnv(it, job.EnvOpts)
	it.crcTab = &crcTable{}
	it.xxhTab = &ufTable{}
	it.sched = newScheduler(it)
	it.raceInit()
	pr = &PathResult{}
	sol.BeginPath()
	defer func() {
		r := recover()
		it.sched.killAll()
		// models for uncaught panics / fatal errors must be fetched while the path scope is still open
		var lateModel smt.Model
		switch r.(type) {
		case targetPanic, fatalError:
			lateModel = p.currentModelSafe()
		case nil:
			if ex.wantOKModel() {
				lateModel = p.currentModelSafe()
			}
		}
		sol.EndPath()
		pr.Trace = p.trace
		pr.Steps = p.steps
		pr.Uncertain = p.uncertain
		pr.Reach = sortedKeys(p.reach)
		if len(it.sched.switches) > 0 {
			p.notes["schedule"] = strings.Join(it.sched.switches, " ")
		}
		pr.Notes = p.notes
		pr.KnownHits = p.known
		pr.Choices = p.choices
		pr.Queries = p.queries
		pr.Verdicts = p.verdicts
		for fi := range p.funcSet {
			p.funcs[fi.name] = true
		}
		pr.Funcs = p.funcs
		switch r := r.(type) {
		case nil:
			if p.pos < len(p.prefix) {
				pr.Status = StInternal
				pr.Msg = fmt.Sprintf("replay divergence: path ended with %d prefix decisions unused", len(p.prefix)-p.pos)
			} else {
				pr.Status = StOK
				if lateModel != nil {
					pr.Model = lateModel
					func() {
						defer func() { recover() }()
						it.snapshotForReplay(pr.Model)
					}()
					if it.replay != nil {
						pr.Replay = it.replay
					}
				}
			}
		case abort:
			pr.Status = r.st
			pr.AssertID = r.id
			pr.Msg = r.msg
			if r.st == StViolation {
				pr.Model = it.violationModel
			}
		case targetPanic:
			// uncaught panic of the interpreted program
			pr.Status = StViolation
			pr.AssertID = "panic"
			pr.Msg = "uncaught panic: " + panicString(r.v) + " @ " + r.stack
			pr.Model = lateModel
		case fatalError:
			pr.Status = StViolation
			pr.AssertID = "fatal"
			pr.Msg = "fatal: " + r.msg
			pr.Model = lateModel
		case crashSignal:
			pr.Status = StInternal
			pr.Msg = "crash signal escaped the harness"
		default:
			pr.Status = StInternal
			pr.Msg = fmt.Sprintf("engine panic: %v\n%s", r, debug.Stack())
		}
		if pr.Status == StViolation && pr.Model != nil {
			func() {
				defer func() {
					if r := recover(); r != nil && os.Getenv("VERIF_DEBUG") != "" {
						fmt.Fprintf(os.Stderr, "snapshotForReplay: %v\n%s\n", r, debug.Stack())
					}
				}()
				it.snapshotForReplay(pr.Model)
			}()
			if it.replay != nil {
				pr.Replay = it.replay
			}
		}
	}()
	// initialise the harness package (runs whitelisted inits transitively)
	if initFn := fn.Pkg.Func("init"); initFn != nil {
		call(it, nil, 0, initFn, nil)
	}
	it.sched.runMain(func() {
		call(it, nil, 0, fn, nil)
	})
	return pr
}

func (p *Path) currentModelSafe() (m smt.Model) {
	defer func() {
		if r := recover(); r != nil {
			m = smt.Model{}
		}
	}()
	return p.currentModelCopy()
}

func panicString(v Value) string {
	if i, ok := v.(Iface); ok {
		if i.T == nil {
			return "nil"
		}
		if s, ok := i.V.(string); ok {
			return s
		}
		// error values: try to render *errors.errorString{ s }
		if p, ok := i.V.(*Value); ok && p != nil {
			if st, ok := (*p).(Struct); ok && len(st) == 1 {
				if s, ok := st[0].(string); ok {
					return s
				}
			}
		}
		return i.T.String() + " " + toString(i.V)
	}
	return toString(v)
}
