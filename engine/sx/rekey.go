package sx

import (
	"bytes"
	"regexp"
	"sort"
	"strconv"

	"github.com/cespare/xxhash"

	"gosx/smt"
)

// rekeyForRealHash: the engine places symbolic keys with an UNINTERPRETED hash, so a counterexample may need a
// shard layout that the model's key bytes do not have under the real xxhash. Before a model is handed to the
// native replay, search for replacement key bytes that (1) land in the shards the model chose
// (real xxhash & mask == model hash & mask) and (2) preserve every lexicographic comparison and prefix relation
// among all symbolic byte strings of the path. The replay is the arbiter: if no such keys exist or the
// replacement disturbs something else, the counterexample simply does not reproduce (inconclusive).

var groupRe = regexp.MustCompile(`^(.*)\[(\d+)\]$`)

type byteGroup struct {
	base  string
	vars  []*smt.Term
	val   []byte
	hash  uint64 // model hash (if keyed)
	keyed bool
}

func nextPow2(n int64) uint64 {
	if n <= 1 {
		return 1
	}
	c := uint64(1)
	for c < uint64(n) && c < 1024 {
		c <<= 1
	}
	return c
}

func (it *Interp) rekeyForRealHash(m smt.Model) {
	if it.xxhTab == nil || len(it.xxhTab.apps) == 0 || m == nil {
		return
	}
	// byte-string groups
	groups := map[string]*byteGroup{}
	for name, t := range it.st().Vars() {
		if t.W != 8 {
			continue
		}
		mm := groupRe.FindStringSubmatch(name)
		if mm == nil {
			continue
		}
		idx, _ := strconv.Atoi(mm[2])
		g := groups[mm[1]]
		if g == nil {
			g = &byteGroup{base: mm[1]}
			groups[mm[1]] = g
		}
		for len(g.vars) <= idx {
			g.vars = append(g.vars, nil)
		}
		g.vars[idx] = t
	}
	var all []*byteGroup
	for _, g := range groups {
		ok := true
		for _, v := range g.vars {
			if v == nil {
				ok = false
			}
		}
		if !ok || len(g.vars) == 0 || len(g.vars) > 3 {
			continue
		}
		g.val = make([]byte, len(g.vars))
		for i, v := range g.vars {
			g.val[i] = byte(m[v.Name])
		}
		all = append(all, g)
	}
	sort.Slice(all, func(i, j int) bool { return all[i].base < all[j].base })
	// which groups are hashed as a whole
	byFirst := map[*smt.Term]*byteGroup{}
	for _, g := range all {
		byFirst[g.vars[0]] = g
	}
	var mask uint64
	for _, p := range []string{"shards", "b_shards", "r_shards"} {
		if c := nextPow2(it.params[p]) - 1; c > mask {
			mask = c
		}
	}
	if it.params["cfgsweep"] >= 1 && mask < 3 {
		mask = 3 // the configuration sweep draws ShardNum from {1, 3}
	}
	if mask == 0 {
		return // one shard everywhere: placement is irrelevant
	}
	var keyed []*byteGroup
	for _, app := range it.xxhTab.apps {
		if len(app.args) == 0 {
			continue
		}
		first, ok := app.args[0].(*smt.Term)
		if !ok {
			continue
		}
		g := byFirst[first]
		if g == nil || len(g.vars) != len(app.args) || g.keyed {
			continue
		}
		same := true
		for i := range app.args {
			if app.args[i] != Value(g.vars[i]) {
				same = false
			}
		}
		if !same {
			continue
		}
		g.keyed = true
		g.hash = m[app.res.Name]
		keyed = append(keyed, g)
	}
	if len(keyed) == 0 {
		return
	}
	// already consistent?
	consistent := true
	for _, g := range keyed {
		if xxhash.Sum64(g.val)&mask != g.hash&mask {
			consistent = false
		}
	}
	if consistent {
		return
	}
	// original relations
	type rel struct {
		cmp      int
		pij, pji bool
	}
	n := len(all)
	orig := make([][]rel, n)
	for i := range all {
		orig[i] = make([]rel, n)
		for j := range all {
			orig[i][j] = rel{bytes.Compare(all[i].val, all[j].val), bytes.HasPrefix(all[i].val, all[j].val), bytes.HasPrefix(all[j].val, all[i].val)}
		}
	}
	idxOf := map[*byteGroup]int{}
	for i, g := range all {
		idxOf[g] = i
	}
	// candidates per keyed group
	cands := make([][][]byte, len(keyed))
	for k, g := range keyed {
		L := len(g.val)
		total := 1 << (8 * uint(L))
		buf := make([]byte, L)
		for x := 0; x < total; x++ {
			for b := 0; b < L; b++ {
				buf[L-1-b] = byte(x >> (8 * uint(b)))
			}
			if xxhash.Sum64(buf)&mask == g.hash&mask {
				cands[k] = append(cands[k], append([]byte(nil), buf...))
			}
		}
		// prefer candidates close to the original value
		ov := g.val
		sort.SliceStable(cands[k], func(a, b int) bool {
			return dist(cands[k][a], ov) < dist(cands[k][b], ov)
		})
		if len(cands[k]) > 4096 {
			cands[k] = cands[k][:4096]
		}
	}
	cur := make([][]byte, n)
	for i, g := range all {
		cur[i] = g.val
	}
	assigned := make([]bool, n)
	for i, g := range all {
		assigned[i] = !g.keyed
	}
	steps := 0
	var solve func(k int) bool
	solve = func(k int) bool {
		if k == len(keyed) {
			return true
		}
		gi := idxOf[keyed[k]]
		for _, c := range cands[k] {
			steps++
			if steps > 2_000_000 {
				return false
			}
			ok := true
			for j := 0; j < n && ok; j++ {
				if j == gi || !assigned[j] {
					continue
				}
				r := rel{bytes.Compare(c, cur[j]), bytes.HasPrefix(c, cur[j]), bytes.HasPrefix(cur[j], c)}
				if r != orig[gi][j] {
					ok = false
				}
			}
			if !ok {
				continue
			}
			cur[gi] = c
			assigned[gi] = true
			if solve(k + 1) {
				return true
			}
			assigned[gi] = false
		}
		cur[gi] = all[gi].val
		return false
	}
	if !solve(0) {
		return
	}
	for _, g := range keyed {
		nv := cur[idxOf[g]]
		for i, v := range g.vars {
			m[v.Name] = uint64(nv[i])
		}
		// keep the model's hash variable in line with the real hash (for rendering only)
	}
}

func dist(a, b []byte) int {
	d := 0
	for i := range a {
		x := int(a[i]) - int(b[i])
		if x < 0 {
			x = -x
		}
		d = d*256 + x
	}
	return d
}
