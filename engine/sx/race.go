package sx

import (
	"fmt"

	"golang.org/x/tools/go/ssa"
)

// Happens-before race detection over each explored schedule (vector clocks, FastTrack style).
// Enabled per job (param race=1) and only while more than one thread has been started.

type vclock []int

func (v vclock) copyOf() vclock { return append(vclock(nil), v...) }

func (v *vclock) join(o vclock) {
	for len(*v) < len(o) {
		*v = append(*v, 0)
	}
	for i, c := range o {
		if c > (*v)[i] {
			(*v)[i] = c
		}
	}
}

func (v vclock) get(i int) int {
	if i < len(v) {
		return v[i]
	}
	return 0
}

type access struct {
	thread int
	clock  int
	where  ssa.Instruction
	fn     *ssa.Function
	atomic bool
}

type shadow struct {
	w     *access
	reads []*access // at most one per thread
}

type raceState struct {
	on     bool
	vc     map[int]*vclock         // per thread
	locks  map[interface{}]*lockVC // mutex / atomic address / pool
	shadow map[interface{}]*shadow // heap cell / map object
	found  []string
}

type lockVC struct {
	w vclock // released by writers (or any release for plain mutexes, atomics, pools)
	r vclock // released by readers
}

func (it *Interp) raceInit() {
	it.race = &raceState{vc: map[int]*vclock{}, locks: map[interface{}]*lockVC{}, shadow: map[interface{}]*shadow{}}
	it.race.on = it.params["race"] == 1
}

func (rs *raceState) tvc(t int) *vclock {
	v, ok := rs.vc[t]
	if !ok {
		nv := make(vclock, t+1)
		nv[t] = 1
		v = &nv
		rs.vc[t] = v
	}
	for len(*v) <= t {
		*v = append(*v, 0)
	}
	return v
}

func (rs *raceState) lock(obj interface{}) *lockVC {
	l, ok := rs.locks[obj]
	if !ok {
		l = &lockVC{}
		rs.locks[obj] = l
	}
	return l
}

func (it *Interp) raceActive() bool {
	return it.race != nil && it.race.on && len(it.sched.threads) > 1
}

func (it *Interp) raceAcquire(obj interface{}, read bool) {
	if !it.raceActive() {
		return
	}
	rs := it.race
	t := it.sched.cur.id
	l := rs.lock(obj)
	v := rs.tvc(t)
	v.join(l.w)
	if !read {
		v.join(l.r)
	}
}

func (it *Interp) raceRelease(obj interface{}, read bool) {
	if !it.raceActive() {
		return
	}
	rs := it.race
	t := it.sched.cur.id
	l := rs.lock(obj)
	v := rs.tvc(t)
	if read {
		l.r.join(*v)
	} else {
		l.w = v.copyOf()
	}
	(*v)[t]++
}

func (it *Interp) raceFork(child int) {
	if it.race == nil || !it.race.on {
		return
	}
	rs := it.race
	t := it.sched.cur.id
	pv := rs.tvc(t)
	cv := pv.copyOf()
	for len(cv) <= child {
		cv = append(cv, 0)
	}
	cv[child] = 1
	rs.vc[child] = &cv
	(*pv)[t]++
}

func (it *Interp) raceJoinAll() {
	if it.race == nil || !it.race.on {
		return
	}
	rs := it.race
	t := it.sched.cur.id
	v := rs.tvc(t)
	for id, o := range rs.vc {
		if id != t {
			v.join(*o)
		}
	}
}

func (it *Interp) curInstr() (ssa.Instruction, *ssa.Function) {
	if it.top == nil {
		return nil, nil
	}
	return it.top.curInstr, it.top.fn
}

func (it *Interp) raceAccess(addr interface{}, write, atomic bool) {
	if !it.raceActive() {
		return
	}
	rs := it.race
	t := it.sched.cur.id
	v := rs.tvc(t)
	sh, ok := rs.shadow[addr]
	if !ok {
		sh = &shadow{}
		rs.shadow[addr] = sh
	}
	in, fn := it.curInstr()
	me := &access{thread: t, clock: (*v)[t], where: in, fn: fn, atomic: atomic}
	conflict := func(o *access) bool {
		if o == nil || o.thread == t {
			return false
		}
		if o.atomic && atomic {
			return false
		}
		return o.clock > v.get(o.thread)
	}
	if conflict(sh.w) {
		it.reportRace(sh.w, me, "write", write)
	}
	if write {
		for _, r := range sh.reads {
			if conflict(r) {
				it.reportRace(r, me, "read", true)
			}
		}
		sh.w = me
		sh.reads = sh.reads[:0]
	} else {
		for i, r := range sh.reads {
			if r.thread == t {
				sh.reads[i] = me
				return
			}
		}
		sh.reads = append(sh.reads, me)
	}
}

func (it *Interp) describe(a *access) string {
	if a.where == nil || a.fn == nil {
		return fmt.Sprintf("g%d", a.thread)
	}
	pos := it.P.Prog.Fset.Position(a.where.Pos())
	kind := "plain"
	if a.atomic {
		kind = "atomic"
	}
	return fmt.Sprintf("g%d %s in %s (%s:%d)", a.thread, kind, a.fn.String(), shortPath(pos.Filename), pos.Line)
}

func shortPath(p string) string {
	for i := len(p) - 1; i >= 0; i-- {
		if p[i] == '/' {
			for j := i - 1; j >= 0; j-- {
				if p[j] == '/' {
					return p[j+1:]
				}
			}
			return p
		}
	}
	return p
}

func (it *Interp) reportRace(prev, cur *access, prevKind string, curWrite bool) {
	ck := "read"
	if curWrite {
		ck = "write"
	}
	msg := fmt.Sprintf("DATA RACE: %s by %s unordered with %s by %s", prevKind, it.describe(prev), ck, it.describe(cur))
	panic(fatalError{msg})
}
