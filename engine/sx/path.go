package sx

import (
	"fmt"
	"sort"
	"strings"
	"sync"
	"sync/atomic"
	"time"

	"gosx/smt"
)

type DKind uint8

const (
	DBranch DKind = iota
	DChoice
	DConc
)

type Decision struct {
	K DKind
	V uint64 // branch: 0/1; choice: index; conc: value
}

func (d Decision) String() string {
	switch d.K {
	case DBranch:
		if d.V != 0 {
			return "T"
		}
		return "F"
	case DChoice:
		return fmt.Sprintf("c%d", d.V)
	}
	return fmt.Sprintf("=%d", d.V)
}

func traceString(tr []Decision) string {
	var sb strings.Builder
	for _, d := range tr {
		sb.WriteString(d.String())
	}
	return sb.String()
}

type WorkItem struct {
	Prefix    []Decision
	Model     smt.Model
	Uncertain bool // reached through an unknown branch query
}

type Status int

const (
	StOK Status = iota
	StViolation
	StDiscard     // assumption false / infeasible
	StKnown       // stopped at a known-finding guard
	StUnsupported // engine limitation
	StBudget      // step/concretisation/time budget
	StInternal    // engine bug
)

func (s Status) String() string {
	return [...]string{"ok", "violation", "discard", "known", "unsupported", "budget", "internal"}[s]
}

type PathResult struct {
	Status    Status
	AssertID  string // for violations: assertion id / "panic" / "fatal"
	Msg       string
	Model     smt.Model
	Trace     []Decision
	Reach     []string
	Notes     map[string]string
	KnownHits []string
	Steps     int64
	Uncertain bool
	Choices   map[string]uint64 // named intrinsic draws resolved concretely (choices/params)
	Queries   int
	Verdicts  int // verdict (assert) queries that were non-constant
	Replay    interface{}
	Funcs     map[string]bool
}

// abort is the engine's control-flow panic; never visible to interpreted code.
type abort struct {
	st  Status
	id  string
	msg string
}

type Limits struct {
	MaxSteps      int64
	ConcCap       int
	MaxPaths      int
	Deadline      time.Time
	QueryMs       int
	SolverKind    string
	Workers       int
	StopOnFirst   bool // stop exploring a job at the first violation
	MaxViolations int  // stop exploring a job once this many violating paths were collected (0 = never)
}

type Path struct {
	St     *smt.Store
	Sol    *smt.Solver
	ex     *Explorer
	prefix []Decision
	pos    int
	trace  []Decision
	pc     []*smt.Term
	model  smt.Model
	memo   map[*smt.Term]uint64
	lim    *Limits

	uncertain bool
	steps     int64
	reach     map[string]bool
	notes     map[string]string
	known     []string
	occ       map[string]int
	choices   map[string]uint64
	verdicts  int
	queries   int
	funcs     map[string]bool
	decided   map[*smt.Term]bool
	funcSet   map[*fnInfo]struct{}
	concd     map[*smt.Term]uint64 // terms already concretised on this path
}

func (p *Path) eval(t *smt.Term) uint64 {
	return smt.Eval(t, p.model, p.memo)
}

func (p *Path) setModel(m smt.Model) {
	p.model = m
	p.memo = make(map[*smt.Term]uint64, 256)
}

func (p *Path) ensureModel() {
	if p.model != nil {
		return
	}
	r, m := p.Sol.Check(nil, p.St.Vars(), true)
	p.queries++
	switch r {
	case smt.Sat:
		if m == nil {
			m = smt.Model{}
		}
		p.setModel(m)
	case smt.Unsat:
		panic(abort{st: StDiscard, msg: "path condition infeasible"})
	default:
		panic(abort{st: StBudget, msg: "solver " + r.String() + " on path condition: " + p.Sol.LastErr})
	}
}

func (p *Path) addPC(c *smt.Term) {
	p.pc = append(p.pc, c)
	p.Sol.Assert(c)
	if p.decided == nil {
		p.decided = map[*smt.Term]bool{}
	}
	if c.Op == smt.OpBNot {
		p.decided[c.Args[0]] = false
	} else {
		p.decided[c] = true
	}
}

// Branch decides a symbolic condition, forking the other feasible side into the work queue.
func (p *Path) Branch(c *smt.Term) bool {
	if c.IsConst() {
		return c.C != 0
	}
	if v, ok := p.decided[c]; ok {
		return v
	}
	if c.Op == smt.OpBNot {
		if v, ok := p.decided[c.Args[0]]; ok {
			return !v
		}
	}
	if p.pos < len(p.prefix) {
		d := p.prefix[p.pos]
		if d.K != DBranch {
			panic(abort{st: StInternal, msg: fmt.Sprintf("replay divergence: expected %v got branch at %d", d, p.pos)})
		}
		p.pos++
		p.trace = append(p.trace, d)
		if d.V != 0 {
			p.addPC(c)
		} else {
			p.addPC(p.St.Not(c))
		}
		if p.pos == len(p.prefix) && p.model != nil {
			p.memo = make(map[*smt.Term]uint64, 256)
		}
		return d.V != 0
	}
	p.ensureModel()
	b := p.eval(c) != 0
	other := c
	if b {
		other = p.St.Not(c)
	}
	r, m := p.Sol.Check(other, p.St.Vars(), true)
	p.queries++
	switch r {
	case smt.Sat:
		p.fork(Decision{DBranch, b2u(!b)}, m, false)
	case smt.Unsat:
	default:
		p.fork(Decision{DBranch, b2u(!b)}, nil, true)
	}
	p.trace = append(p.trace, Decision{DBranch, b2u(b)})
	if b {
		p.addPC(c)
	} else {
		p.addPC(p.St.Not(c))
	}
	return b
}

func b2u(b bool) uint64 {
	if b {
		return 1
	}
	return 0
}

func (p *Path) fork(d Decision, m smt.Model, uncertain bool) {
	pre := make([]Decision, len(p.trace)+1)
	copy(pre, p.trace)
	pre[len(p.trace)] = d
	p.ex.push(WorkItem{Prefix: pre, Model: m, Uncertain: uncertain || p.uncertain})
}

// Choice picks one of n alternatives; all are explored.
func (p *Path) Choice(n int) int {
	if n <= 1 {
		return 0
	}
	if p.pos < len(p.prefix) {
		d := p.prefix[p.pos]
		if d.K != DChoice {
			panic(abort{st: StInternal, msg: fmt.Sprintf("replay divergence: expected %v got choice at %d", d, p.pos)})
		}
		p.pos++
		p.trace = append(p.trace, d)
		return int(d.V)
	}
	for i := n - 1; i >= 1; i-- {
		p.fork(Decision{DChoice, uint64(i)}, p.model, false)
	}
	p.trace = append(p.trace, Decision{DChoice, 0})
	return 0
}

// Concretize enumerates every feasible value of t (up to the cap) and forks one path per value.
func (p *Path) Concretize(t *smt.Term, what string) uint64 {
	if t.IsConst() {
		return t.C
	}
	if v, ok := p.concd[t]; ok {
		return v
	}
	if p.concd == nil {
		p.concd = map[*smt.Term]uint64{}
	}
	if p.pos < len(p.prefix) {
		d := p.prefix[p.pos]
		if d.K != DConc {
			panic(abort{st: StInternal, msg: fmt.Sprintf("replay divergence: expected %v got concretize at %d", d, p.pos)})
		}
		p.pos++
		p.trace = append(p.trace, d)
		p.addPC(p.St.Eq(t, p.St.Const(t.W, d.V)))
		p.concd[t] = d.V
		return d.V
	}
	p.ensureModel()
	first := p.eval(t)
	vals := []uint64{first}
	models := []smt.Model{nil}
	// enumerate others
	excl := p.St.Not(p.St.Eq(t, p.St.Const(t.W, first)))
	for {
		r, m := p.Sol.Check(excl, p.St.Vars(), true)
		p.queries++
		if r == smt.Unsat {
			break
		}
		if r != smt.Sat {
			panic(abort{st: StBudget, msg: "solver " + r.String() + " while concretising " + what})
		}
		memo := map[*smt.Term]uint64{}
		v := smt.Eval(t, m, memo)
		vals = append(vals, v)
		models = append(models, m)
		if len(vals) > p.lim.ConcCap {
			panic(abort{st: StBudget, msg: fmt.Sprintf("concretisation cap %d exceeded at %s", p.lim.ConcCap, what)})
		}
		excl = p.St.And(excl, p.St.Not(p.St.Eq(t, p.St.Const(t.W, v))))
	}
	for i := len(vals) - 1; i >= 1; i-- {
		p.fork(Decision{DConc, vals[i]}, models[i], false)
	}
	p.trace = append(p.trace, Decision{DConc, first})
	p.addPC(p.St.Eq(t, p.St.Const(t.W, first)))
	p.concd[t] = first
	return first
}

// Assume constrains the path; an infeasible assumption discards the path.
func (p *Path) Assume(c *smt.Term) {
	if c.IsConst() {
		if c.C == 0 {
			panic(abort{st: StDiscard, msg: "assume(false)"})
		}
		return
	}
	p.addPC(c)
	if p.pos < len(p.prefix) {
		return // feasibility was established when the prefix was scheduled
	}
	if p.model != nil && p.eval(c) != 0 {
		return
	}
	r, m := p.Sol.Check(nil, p.St.Vars(), true)
	p.queries++
	switch r {
	case smt.Sat:
		p.setModel(m)
	case smt.Unsat:
		panic(abort{st: StDiscard, msg: "assumption infeasible"})
	default:
		panic(abort{st: StBudget, msg: "solver " + r.String() + " on assumption"})
	}
}

// Axiom adds a constraint that is satisfiable by construction (UF axioms over fresh variables).
func (p *Path) Axiom(c *smt.Term) {
	if c.IsConst() && c.C != 0 {
		return
	}
	p.addPC(c)
	if p.model != nil && p.eval(c) == 0 {
		p.model = nil // refreshed lazily
	}
}

// Verdict checks that c holds on every assignment of this path. Returns a counter-model if not.
func (p *Path) Verdict(c *smt.Term) (holds bool, cex smt.Model) {
	if c.IsConst() {
		return c.C != 0, p.currentModelCopy()
	}
	p.verdicts++
	r, m := p.Sol.Check(p.St.Not(c), p.St.Vars(), true)
	p.queries++
	switch r {
	case smt.Unsat:
		return true, nil
	case smt.Sat:
		return false, m
	}
	panic(abort{st: StBudget, msg: "solver " + r.String() + " on verdict query: " + p.Sol.LastErr})
}

func (p *Path) currentModelCopy() smt.Model {
	if p.pos < len(p.prefix) || p.model == nil {
		// need a real model of the PC
		r, m := p.Sol.Check(nil, p.St.Vars(), true)
		p.queries++
		if r == smt.Sat && m != nil {
			return m
		}
		return smt.Model{}
	}
	m := smt.Model{}
	for k, v := range p.model {
		m[k] = v
	}
	return m
}

// FreshName returns name#k for the k-th draw with this name on the path.
func (p *Path) FreshName(name string) string {
	k := p.occ[name]
	p.occ[name] = k + 1
	return fmt.Sprintf("%s#%d", name, k)
}

// ---------- explorer ----------

type Explorer struct {
	okModels atomic.Bool // OK paths should fetch a model (for passing-path validation) until enough samples exist
	mu       sync.Mutex
	cond     *sync.Cond
	stack    []WorkItem
	active   int
	stopped  bool
	pushed   int
	lim      *Limits
}

func (e *Explorer) wantOKModel() bool { return e.okModels.Load() }

func newExplorer(lim *Limits) *Explorer {
	e := &Explorer{lim: lim}
	e.okModels.Store(true)
	e.cond = sync.NewCond(&e.mu)
	return e
}

func (e *Explorer) push(w WorkItem) {
	e.mu.Lock()
	e.stack = append(e.stack, w)
	e.pushed++
	e.mu.Unlock()
	e.cond.Signal()
}

// pop blocks until work is available or exploration is finished.
func (e *Explorer) pop() (WorkItem, bool) {
	e.mu.Lock()
	defer e.mu.Unlock()
	for {
		if e.stopped {
			return WorkItem{}, false
		}
		if n := len(e.stack); n > 0 {
			w := e.stack[n-1]
			e.stack = e.stack[:n-1]
			e.active++
			return w, true
		}
		if e.active == 0 {
			e.cond.Broadcast()
			return WorkItem{}, false
		}
		e.cond.Wait()
	}
}

func (e *Explorer) done() {
	e.mu.Lock()
	e.active--
	if e.active == 0 && len(e.stack) == 0 {
		e.cond.Broadcast()
	}
	e.mu.Unlock()
}

func (e *Explorer) stop() {
	e.mu.Lock()
	e.stopped = true
	e.mu.Unlock()
	e.cond.Broadcast()
}

func (e *Explorer) pending() int {
	e.mu.Lock()
	defer e.mu.Unlock()
	return len(e.stack)
}

// JobResult aggregates all paths of one harness run.
type JobResult struct {
	Name                string
	Paths               []*PathResult // violations, known, unsupported, budget, internal (all non-ok kept); ok sampled
	Counts              map[Status]int
	Reach               map[string]int
	Steps               int64
	Queries             smt.Stats
	Decisions           int64
	Verdicts            int
	Wall                time.Duration
	Incomplete          string // non-empty if exploration stopped early
	OKSamples           []*PathResult
	Distinct            int
	DistinctNontrivial  int
	Funcs               map[string]bool
	KnownHits           map[string]int
	UncertainOK         int
	CrossQueries        int
	CrossDisagreements  int
	CrossErrors         []string
	StoppedOnViolations bool
}

func sortedKeys[M ~map[string]V, V any](m M) []string {
	ks := make([]string, 0, len(m))
	for k := range m {
		ks = append(ks, k)
	}
	sort.Strings(ks)
	return ks
}
