package sx

import (
	"hash/crc32"
	"math/rand"
	"testing"
)

func TestForgeCRC32(t *testing.T) {
	r := rand.New(rand.NewSource(1))
	for it := 0; it < 2000; it++ {
		n := 4 + r.Intn(60)
		bs := make([]byte, n)
		r.Read(bs)
		p := r.Intn(n - 3)
		target := r.Uint32()
		if it%5 == 0 {
			target = 0
		}
		f := forgeCRC32(bs, p, target)
		copy(bs[p:], f[:])
		if got := crc32.ChecksumIEEE(bs); got != target {
			t.Fatalf("n=%d p=%d: got %08x want %08x", n, p, got, target)
		}
	}
}
