package sx

import "fmt"

// ---------- gofrs/flock and edsrzf/mmap-go ----------

type flockObj struct {
	path string
	held bool
	ino  int // the lock is on the open file description's inode, not on the path
}

func registerFlockMmapExternals() {
	externals["github.com/gofrs/flock.New"] = func(fr *Frame, a []Value) Value {
		return hostPtr("flock", &flockObj{path: clean(concStr(a[0], "flock.New"))})
	}
	externals["(*github.com/gofrs/flock.Flock).TryLock"] = func(fr *Frame, a []Value) Value {
		it := fr.it
		e := it.env
		fl := hostOf(a[0], "flock").X.(*flockObj)
		if fl.held {
			return Tuple{true, Iface{}}
		}
		if e.injectFail() {
			return Tuple{false, e.errInjected()}
		}
		// open(O_CREATE|O_RDONLY) of the lock file, then flock(LOCK_EX|LOCK_NB)
		if _, ok := e.nodes[fl.path]; !ok {
			if !e.parentExists(fl.path) {
				return Tuple{false, e.errNotExist()}
			}
			e.beforeMutation("create " + fl.path)
		} else {
			it.sched.yield("flock")
		}
		// open(O_CREATE) is atomic: look the path up again after the switch point, create if (still/now) missing
		node, ok := e.nodes[fl.path]
		if !ok {
			node = &FSNode{file: e.newFile(), mode: 0600}
			e.nodes[fl.path] = node
			e.log(FSOp{Kind: "create", Path: fl.path})
		}
		ino := node.file.ino
		key := fmt.Sprintf("ino:%d", ino)
		if cur, ok := e.locks[key]; ok && cur.held {
			return Tuple{false, Iface{}}
		}
		fl.held = true
		fl.ino = ino
		e.locks[key] = &flockState{path: fl.path, held: true}
		e.log(FSOp{Kind: "lock", Path: fl.path})
		return Tuple{true, Iface{}}
	}
	externals["(*github.com/gofrs/flock.Flock).Unlock"] = func(fr *Frame, a []Value) Value {
		e := fr.it.env
		fl := hostOf(a[0], "flock").X.(*flockObj)
		if !fl.held {
			return Iface{}
		}
		fr.it.sched.yield("funlock")
		fl.held = false
		delete(e.locks, fmt.Sprintf("ino:%d", fl.ino))
		e.log(FSOp{Kind: "unlock", Path: fl.path})
		return Iface{}
	}
	externals["(*github.com/gofrs/flock.Flock).Path"] = func(fr *Frame, a []Value) Value {
		return hostOf(a[0], "flock").X.(*flockObj).path
	}
	externals["(*github.com/gofrs/flock.Flock).Locked"] = func(fr *Frame, a []Value) Value {
		return hostOf(a[0], "flock").X.(*flockObj).held
	}
	externals["(*github.com/gofrs/flock.Flock).String"] = externals["(*github.com/gofrs/flock.Flock).Path"]
	externals["(*github.com/gofrs/flock.Flock).Close"] = externals["(*github.com/gofrs/flock.Flock).Unlock"]

	externals["github.com/edsrzf/mmap-go.MapRegion"] = func(fr *Frame, a []Value) Value {
		it := fr.it
		e := it.env
		of := e.fileOf(a[0])
		length := int(it.concInt(a[1], "MapRegion length"))
		off := it.concInt(a[4], "MapRegion offset")
		if off != 0 || length < 0 {
			panic(abort{st: StUnsupported, msg: "MapRegion with offset or negative length"})
		}
		if length == 0 {
			return Tuple{[]Value(nil), e.errVal("mmap: invalid argument")}
		}
		f := of.node.file
		if !f.mapped {
			c := length * 4
			if c < 1024 {
				c = 1024
			}
			f.ensureCap(e, c)
		} else {
			f.ensureCap(e, length)
		}
		if !f.mapped {
			f.mapped = true
			f.takeShadow()
		}
		e.anyMmap = true
		pu := e.pageUp(f.size)
		for i := pu; i < len(f.cells); i++ {
			f.cells[i] = sigbus{}
		}
		return Tuple{f.cells[0:length:length], Iface{}}
	}
	flush := func(fr *Frame, m []Value) Value {
		it := fr.it
		e := it.env
		if len(m) == 0 {
			return Iface{}
		}
		for p, n := range e.nodes {
			if n.isDir || !n.file.mapped || len(n.file.cells) == 0 {
				continue
			}
			if &n.file.cells[0] == &m[0] {
				e.beforeMutation("msync " + p)
				n.file.syncedLen = n.file.size
				n.file.unsynced = nil
				n.file.takeShadow()
				e.log(FSOp{Kind: "sync", Path: p, N: n.file.size})
				return Iface{}
			}
		}
		return Iface{}
	}
	externals["(github.com/edsrzf/mmap-go.MMap).Flush"] = func(fr *Frame, a []Value) Value {
		m, _ := a[0].([]Value)
		return flush(fr, m)
	}
	externals["(*github.com/edsrzf/mmap-go.MMap).Flush"] = func(fr *Frame, a []Value) Value {
		p := a[0].(*Value)
		m, _ := (*p).([]Value)
		return flush(fr, m)
	}
	externals["(*github.com/edsrzf/mmap-go.MMap).Unmap"] = func(fr *Frame, a []Value) Value {
		p := a[0].(*Value)
		*p = []Value(nil)
		return Iface{}
	}
}

// checkBus: touching a poisoned mapped cell kills the process.
func (it *Interp) checkBus(cells []Value) {
	if it.env == nil || !it.env.anyMmap {
		return
	}
	for _, c := range cells {
		if _, ok := c.(sigbus); ok {
			panic(fatalError{fmt.Sprintf("SIGBUS: access to mapped memory beyond end of file")})
		}
	}
}
