package sx

import (
	"fmt"
	"go/types"
	"hash/crc32"
	"math/bits"
	"path/filepath"
	"strconv"
	"strings"

	"github.com/cespare/xxhash"
	"golang.org/x/tools/go/ssa"

	"gosx/smt"
)

var externals = map[string]ExtFn{}

func init() {
	for k, v := range map[string]ExtFn{
		// ---- os ----
		"os.OpenFile": func(fr *Frame, a []Value) Value {
			return fr.it.env.openFile(concStr(a[0], "os.OpenFile"), int(a[1].(uint64)))
		},
		"os.MkdirAll": func(fr *Frame, a []Value) Value {
			e := fr.it.env
			if e.injectFail() {
				return e.errInjected()
			}
			return e.mkdirAll(concStr(a[0], "os.MkdirAll"))
		},
		"os.ReadDir": func(fr *Frame, a []Value) Value {
			e := fr.it.env
			p := clean(concStr(a[0], "os.ReadDir"))
			e.it.sched.yield("fs:readdir")
			if e.injectFail() {
				return Tuple{[]Value(nil), e.errInjected()}
			}
			n, ok := e.nodes[p]
			if !ok || !n.isDir {
				return Tuple{[]Value(nil), e.errNotExist()}
			}
			var out []Value
			t := fr.it.namedPtrType("os", "unixDirent")
			for _, k := range e.children(p) {
				out = append(out, Iface{T: t, V: hostPtr("dirent", &statInfo{name: filepath.Base(k), isDir: e.nodes[k].isDir})})
			}
			return Tuple{out, Iface{}}
		},
		"os.Stat": func(fr *Frame, a []Value) Value { return fr.it.env.stat(concStr(a[0], "os.Stat")) },
		"os.Remove": func(fr *Frame, a []Value) Value {
			return fr.it.env.remove(concStr(a[0], "os.Remove"))
		},
		"os.RemoveAll": func(fr *Frame, a []Value) Value {
			return fr.it.env.removeAll(concStr(a[0], "os.RemoveAll"))
		},
		"os.Rename": func(fr *Frame, a []Value) Value {
			return fr.it.env.rename(concStr(a[0], "os.Rename"), concStr(a[1], "os.Rename"))
		},
		"os.ReadFile": func(fr *Frame, a []Value) Value {
			e := fr.it.env
			e.it.sched.yield("fs:readfile")
			n, ok := e.lookupFile(concStr(a[0], "os.ReadFile"))
			if !ok || n.isDir {
				return Tuple{[]Value(nil), e.errNotExist()}
			}
			out := make([]Value, n.file.size)
			copy(out, n.file.cells[:n.file.size])
			return Tuple{out, Iface{}}
		},
		"os.WriteFile": func(fr *Frame, a []Value) Value {
			e := fr.it.env
			r := e.openFile(concStr(a[0], "os.WriteFile"), oWRONLY|oCREATE|oTRUNC).(Tuple)
			if r[1].(Iface).T != nil {
				return r[1]
			}
			of := e.fileOf(r[0])
			w := e.write(of, a[1].([]Value)).(Tuple)
			e.closeFile(of)
			return w[1]
		},
		"os.IsNotExist": func(fr *Frame, a []Value) Value {
			err := a[0].(Iface)
			ne := fr.it.env.errNotExist()
			return err.T != nil && err.V == ne.V
		},
		"os.TempDir": func(fr *Frame, a []Value) Value { return "/tmp" },
		"os.IsExist": func(fr *Frame, a []Value) Value {
			err := a[0].(Iface)
			ee := fr.it.env.errExist()
			return err.T != nil && err.V == ee.V
		},
		"errors.Is": func(fr *Frame, a []Value) Value {
			// identity, then Unwrap chains (interpreted); enough for sentinel errors
			err, target := a[0].(Iface), a[1].(Iface)
			for i := 0; i < 8 && err.T != nil; i++ {
				if target.T != nil && types.Identical(err.T, target.T) && err.V == target.V {
					return true
				}
				ms := fr.it.P.Prog.MethodSets.MethodSet(err.T)
				sel := ms.Lookup(nil, "Unwrap")
				if sel == nil {
					return false
				}
				fn := fr.it.P.Prog.MethodValue(sel)
				if fn == nil || fn.Signature.Results().Len() != 1 {
					return false
				}
				r, ok := call(fr.it, fr, 0, fn, []Value{err.V}).(Iface)
				if !ok {
					return false
				}
				err = r
			}
			return false
		},
		"os.Create": func(fr *Frame, a []Value) Value {
			return fr.it.env.openFile(concStr(a[0], "os.Create"), oRDWR|oCREATE|oTRUNC)
		},
		"os.Open": func(fr *Frame, a []Value) Value {
			return fr.it.env.openFile(concStr(a[0], "os.Open"), oRDONLY)
		},
		"os.Lstat": func(fr *Frame, a []Value) Value { return fr.it.env.stat(concStr(a[0], "os.Lstat")) },
		"os.Mkdir": func(fr *Frame, a []Value) Value {
			e := fr.it.env
			p := clean(concStr(a[0], "os.Mkdir"))
			if _, ok := e.nodes[p]; ok {
				return e.errExist()
			}
			if !e.parentExists(p) {
				return e.errNotExist()
			}
			return e.mkdirAll(p)
		},
		"os.Truncate": func(fr *Frame, a []Value) Value {
			e := fr.it.env
			p := clean(concStr(a[0], "os.Truncate"))
			n, ok := e.nodes[p]
			if !ok || n.isDir {
				return e.errNotExist()
			}
			sz := int(fr.it.concInt(a[1], "os.Truncate size"))
			e.beforeMutation(fmt.Sprintf("truncate %s to %d", p, sz))
			n.file.truncate(e, sz)
			e.log(FSOp{Kind: "truncate", Path: p, N: sz})
			return Iface{}
		},
		"(*os.File).Name": func(fr *Frame, a []Value) Value { return fr.it.env.fileOf(a[0]).path },
		"(*os.File).WriteAt": func(fr *Frame, a []Value) Value {
			e := fr.it.env
			of := e.fileOf(a[0])
			if of.app {
				return Tuple{uint64(0), e.errVal("os: invalid use of WriteAt on file opened with O_APPEND")}
			}
			off := int(fr.it.concInt(a[2], "WriteAt offset"))
			save := of.pos
			of.pos = off
			r := e.write(of, a[1].([]Value))
			of.pos = save
			return r
		},
		"(*os.File).Read": func(fr *Frame, a []Value) Value {
			e := fr.it.env
			of := e.fileOf(a[0])
			b := a[1].([]Value)
			// a non-positional read uses and moves the descriptor's offset: shared mutable state, a switch point,
			// and a conflict if another goroutine touches the same offset without synchronisation
			fr.it.sched.yield("fs:read " + of.path)
			fr.it.raceAccess(fdOffsetKey{of}, true, false)
			r := e.readAt(of, b, int64(of.pos)).(Tuple)
			n := int(r[0].(uint64))
			of.pos += n
			if n == 0 && len(b) > 0 {
				return Tuple{uint64(0), fr.it.ioEOF()}
			}
			return Tuple{uint64(n), Iface{}}
		},
		"(*os.File).Seek": func(fr *Frame, a []Value) Value {
			e := fr.it.env
			of := e.fileOf(a[0])
			fr.it.sched.yield("fs:seek " + of.path)
			fr.it.raceAccess(fdOffsetKey{of}, true, false)
			off := int(fr.it.concInt(a[1], "Seek offset"))
			switch int(a[2].(uint64)) {
			case 0:
				of.pos = off
			case 1:
				of.pos += off
			case 2:
				of.pos = of.node.file.size + off
			}
			return Tuple{uint64(of.pos), Iface{}}
		},
		"(*os.File).Write": func(fr *Frame, a []Value) Value {
			e := fr.it.env
			return e.write(e.fileOf(a[0]), a[1].([]Value))
		},
		"(*os.File).ReadAt": func(fr *Frame, a []Value) Value {
			e := fr.it.env
			off := fr.it.concInt(a[2], "ReadAt offset")
			return e.readAt(e.fileOf(a[0]), a[1].([]Value), off)
		},
		"(*os.File).Sync":  func(fr *Frame, a []Value) Value { e := fr.it.env; return e.syncFile(e.fileOf(a[0])) },
		"(*os.File).Close": func(fr *Frame, a []Value) Value { e := fr.it.env; return e.closeFile(e.fileOf(a[0])) },
		"(*os.File).Stat": func(fr *Frame, a []Value) Value {
			e := fr.it.env
			of := e.fileOf(a[0])
			if of.closed {
				return Tuple{Iface{}, e.errClosed()}
			}
			return Tuple{e.statValue(of.path, of.node), Iface{}}
		},
		"(*os.File).Truncate": func(fr *Frame, a []Value) Value {
			e := fr.it.env
			of := e.fileOf(a[0])
			if of.closed {
				return e.errClosed()
			}
			if e.injectFail() {
				return e.errInjected()
			}
			n := int(fr.it.concInt(a[1], "Truncate size"))
			e.beforeMutation(fmt.Sprintf("truncate %s to %d", of.path, n))
			of.node.file.truncate(e, n)
			e.log(FSOp{Kind: "truncate", Path: of.path, N: n})
			return Iface{}
		},
		"(*os.fileStat).Size":  func(fr *Frame, a []Value) Value { return uint64(hostOf(a[0], "stat").X.(*statInfo).size) },
		"(*os.fileStat).Name":  func(fr *Frame, a []Value) Value { return hostOf(a[0], "stat").X.(*statInfo).name },
		"(*os.fileStat).ModTime": func(fr *Frame, a []Value) Value {
			// logical modification time, one second per tick after the engine's epoch
			return Struct{uint64(0), uint64(clockT0) + uint64(hostOf(a[0], "stat").X.(*statInfo).mtime)*1_000_000_000, (*Value)(nil)}
		},
		"(*os.fileStat).IsDir": func(fr *Frame, a []Value) Value { return hostOf(a[0], "stat").X.(*statInfo).isDir },
		"(*os.fileStat).Mode":  func(fr *Frame, a []Value) Value { return norm(hostOf(a[0], "stat").X.(*statInfo).mode, 32, false) },
		"(*os.unixDirent).Name": func(fr *Frame, a []Value) Value {
			return hostOf(a[0], "dirent").X.(*statInfo).name
		},
		"(*os.unixDirent).IsDir": func(fr *Frame, a []Value) Value {
			return hostOf(a[0], "dirent").X.(*statInfo).isDir
		},
		"path/filepath.Walk": extWalk,
		"path/filepath.Join": func(fr *Frame, a []Value) Value {
			var parts []string
			for _, p := range a[0].([]Value) {
				parts = append(parts, concStr(p, "filepath.Join"))
			}
			return filepath.Join(parts...)
		},
		"path/filepath.Dir":   func(fr *Frame, a []Value) Value { return filepath.Dir(concStr(a[0], "filepath.Dir")) },
		"path/filepath.Base":  func(fr *Frame, a []Value) Value { return filepath.Base(concStr(a[0], "filepath.Base")) },
		"path/filepath.Clean": func(fr *Frame, a []Value) Value { return filepath.Clean(concStr(a[0], "filepath.Clean")) },
		"path/filepath.Match": func(fr *Frame, a []Value) Value {
			ok, err := filepath.Match(concStr(a[0], "Match"), concStr(a[1], "Match"))
			if err != nil {
				return Tuple{false, fr.it.makeError(err.Error())}
			}
			return Tuple{ok, Iface{}}
		},
		// ---- strings / strconv / fmt / errors ----
		"strings.HasSuffix": func(fr *Frame, a []Value) Value {
			return strings.HasSuffix(concStr(a[0], "strings"), concStr(a[1], "strings"))
		},
		"strings.HasPrefix": func(fr *Frame, a []Value) Value {
			return strings.HasPrefix(concStr(a[0], "strings"), concStr(a[1], "strings"))
		},
		"strings.Split": func(fr *Frame, a []Value) Value {
			var out []Value
			for _, s := range strings.Split(concStr(a[0], "strings"), concStr(a[1], "strings")) {
				out = append(out, s)
			}
			return out
		},
		"strings.Replace": func(fr *Frame, a []Value) Value {
			return strings.Replace(concStr(a[0], "strings"), concStr(a[1], "strings"), concStr(a[2], "strings"), int(int64(a[3].(uint64))))
		},
		"strconv.Atoi": func(fr *Frame, a []Value) Value {
			n, err := strconv.Atoi(concStr(a[0], "strconv.Atoi"))
			if err != nil {
				return Tuple{uint64(0), fr.it.makeError(err.Error())}
			}
			return Tuple{uint64(int64(n)), Iface{}}
		},
		"strconv.Itoa": func(fr *Frame, a []Value) Value { return strconv.Itoa(int(int64(a[0].(uint64)))) },
		"strconv.FormatInt": func(fr *Frame, a []Value) Value {
			return strconv.FormatInt(int64(a[0].(uint64)), int(a[1].(uint64)))
		},
		"strconv.FormatFloat": func(fr *Frame, a []Value) Value {
			f, ok := a[0].(float64)
			if !ok {
				panic(abort{st: StUnsupported, msg: "FormatFloat(symbolic)"})
			}
			return strconv.FormatFloat(f, byte(a[1].(uint64)), int(int64(a[2].(uint64))), int(int64(a[3].(uint64))))
		},
		"strconv.ParseFloat": func(fr *Frame, a []Value) Value {
			f, err := strconv.ParseFloat(concStr(a[0], "strconv.ParseFloat"), int(int64(a[1].(uint64))))
			if err != nil {
				return Tuple{f, fr.it.makeError(err.Error())}
			}
			return Tuple{f, Iface{}}
		},
		"fmt.Sprintf": func(fr *Frame, a []Value) Value {
			return fmt.Sprintf(concStr(a[0], "fmt.Sprintf"), fr.it.hostArgs(a[1].([]Value))...)
		},
		"fmt.Errorf": func(fr *Frame, a []Value) Value {
			format := concStr(a[0], "fmt.Errorf")
			args := a[1].([]Value)
			msg := fmt.Sprintf(strings.ReplaceAll(format, "%w", "%v"), fr.it.hostArgs(args)...)
			if strings.Count(format, "%w") == 1 {
				// *fmt.wrapError{msg, err}: errors.Is / errors.Unwrap see the wrapped error
				for _, x := range args {
					if itf, ok := x.(Iface); ok && itf.T != nil && types.Implements(itf.T, errorIface()) {
						if wt := fr.it.P.Pkgs["fmt"]; wt != nil && wt.Type("wrapError") != nil {
							var cell Value = Struct{msg, itf}
							return Iface{T: types.NewPointer(wt.Type("wrapError").Type()), V: &cell}
						}
					}
				}
			}
			return fr.it.makeError(msg)
		},
		"fmt.Printf":  func(fr *Frame, a []Value) Value { return Tuple{uint64(0), Iface{}} },
		"fmt.Println": func(fr *Frame, a []Value) Value { return Tuple{uint64(0), Iface{}} },
		"fmt.Print":   func(fr *Frame, a []Value) Value { return Tuple{uint64(0), Iface{}} },
		// ---- bytes ----
		"bytes.Compare": func(fr *Frame, a []Value) Value {
			return fr.it.bytesCompare(a[0].([]Value), a[1].([]Value))
		},
		"internal/bytealg.Compare": func(fr *Frame, a []Value) Value {
			return fr.it.bytesCompare(a[0].([]Value), a[1].([]Value))
		},
		"bytes.Equal": func(fr *Frame, a []Value) Value {
			return simp(fr.it.bytesEqTerm(a[0].([]Value), a[1].([]Value)), false)
		},
		// ---- hashing ----
		"hash/crc32.ChecksumIEEE": func(fr *Frame, a []Value) Value { return fr.it.crcApply(nil, a[0].([]Value)) },
		"hash/crc32.Update": func(fr *Frame, a []Value) Value {
			return fr.it.crcUpdate(a[0], a[2].([]Value))
		},
		"github.com/cespare/xxhash.Sum64": func(fr *Frame, a []Value) Value { return fr.it.xxhSum(a[0].([]Value)) },
		// ---- math/bits (concrete) ----
		"math/bits.Len32":           func(fr *Frame, a []Value) Value { return uint64(bits.Len32(uint32(cu(a[0])))) },
		"math/bits.Len64":           func(fr *Frame, a []Value) Value { return uint64(bits.Len64(cu(a[0]))) },
		"math/bits.Len":             func(fr *Frame, a []Value) Value { return uint64(bits.Len64(cu(a[0]))) },
		"math/bits.TrailingZeros64": func(fr *Frame, a []Value) Value { return uint64(bits.TrailingZeros64(cu(a[0]))) },
		"math/bits.TrailingZeros":   func(fr *Frame, a []Value) Value { return uint64(bits.TrailingZeros64(cu(a[0]))) },
		"math/bits.LeadingZeros64":  func(fr *Frame, a []Value) Value { return uint64(bits.LeadingZeros64(cu(a[0]))) },
		// ---- reflect / unsafe users in skiplist ----
		"reflect.TypeOf": func(fr *Frame, a []Value) Value { return Iface{} },
		"(github.com/huandu/skiplist.keyType).Compare": func(fr *Frame, a []Value) Value {
			l, r := a[1].(Iface), a[2].(Iface)
			lb, ok1 := l.V.([]Value)
			rb, ok2 := r.V.([]Value)
			if !ok1 || !ok2 {
				panic(abort{st: StUnsupported, msg: "skiplist key type other than []byte"})
			}
			return fr.it.bytesCompare(lb, rb)
		},
		"(github.com/huandu/skiplist.keyType).CalcScore": func(fr *Frame, a []Value) Value {
			k := a[1].(Iface)
			b, ok := k.V.([]Value)
			if !ok {
				panic(abort{st: StUnsupported, msg: "skiplist key type other than []byte"})
			}
			return fr.it.skiplistScore(b)
		},
		"(*github.com/huandu/skiplist.elementHeader).Element": func(fr *Frame, a []Value) Value {
			p := a[0].(*Value)
			if par, ok := fr.it.parentOf[p]; ok {
				return par
			}
			panic(abort{st: StUnsupported, msg: "elementHeader.Element: parent unknown"})
		},
		"math/rand.NewSource": func(fr *Frame, a []Value) Value {
			return Iface{T: fr.it.namedPtrType("math/rand", "rngSource"), V: hostPtr("rngsrc", nil)}
		},
		"math/rand.New": func(fr *Frame, a []Value) Value { return hostPtr("rng", &rngState{}) },
		"(*math/rand.Rand).Int31": func(fr *Frame, a []Value) Value {
			// skiplist.randLevel: Int31() < 1<<30 stops level growth. Levels up to param sklevel (default 1).
			maxLevel := int64(1)
			if v, ok := fr.it.params["sklevel"]; ok {
				maxLevel = v
			}
			rs := hostOf(a[0], "rng").X.(*rngState)
			if rs.run+1 >= maxLevel || fr.it.path.Choice(2) == 0 {
				rs.run = 0
				return uint64(0) // stop
			}
			rs.run++
			return uint64(1 << 30) // grow one more level
		},
		// ---- snowflake ----
		"github.com/bwmarrin/snowflake.NewNode": func(fr *Frame, a []Value) Value {
			return Tuple{hostPtr("sfnode", nil), Iface{}}
		},
		"(*github.com/bwmarrin/snowflake.Node).Generate": func(fr *Frame, a []Value) Value {
			e := fr.it.env
			// each NewBatch uses a fresh node: step restarts at 0, so two batches in one ms share an id
			if fr.it.params["sfcollide"] != 0 && e.sfUsed {
				if fr.it.path.Choice(2) == 0 {
					e.sfMs++
				}
			} else if e.sfUsed {
				e.sfMs++
			}
			e.sfUsed = true
			id := (e.sfMs-1288834974657)<<22 | 1<<12
			return uint64(id)
		},
		"(github.com/bwmarrin/snowflake.ID).Bytes": func(fr *Frame, a []Value) Value {
			s := strconv.FormatInt(int64(a[0].(uint64)), 10)
			out := make([]Value, len(s))
			for i := range s {
				out[i] = uint64(s[i])
			}
			return out
		},
		// ---- syscall (utils.AvailableDiskSize) ----
		"syscall.Getwd": func(fr *Frame, a []Value) Value { return Tuple{"/cwd", Iface{}} },
		"syscall.Statfs": func(fr *Frame, a []Value) Value {
			p := a[1].(*Value)
			st := (*p).(Struct)
			ts := fr.it.namedType("syscall", "Statfs_t").Underlying().(*types.Struct)
			for i := 0; i < ts.NumFields(); i++ {
				switch ts.Field(i).Name() {
				case "Bavail":
					st[i] = uint64(1 << 22)
				case "Bsize":
					st[i] = uint64(4096)
				}
			}
			return Iface{}
		},
		// ---- errors ----
		"errors.New": func(fr *Frame, a []Value) Value { return fr.it.makeError(concStr(a[0], "errors.New")) },
	} {
		externals[k] = v
	}
	registerSyncExternals()
	registerTimeExternals()
	registerFlockMmapExternals()
}

type rngState struct{ run int64 }

func errorIface() *types.Interface {
	return types.Universe.Lookup("error").Type().Underlying().(*types.Interface)
}

func cu(v Value) uint64 {
	c, ok := v.(uint64)
	if !ok {
		panic(abort{st: StUnsupported, msg: "symbolic argument to math/bits"})
	}
	return c
}

// hostArgs converts interface{} arguments to host values for fmt.
func (it *Interp) hostArgs(args []Value) []interface{} {
	out := make([]interface{}, len(args))
	for i, a := range args {
		out[i] = it.hostArg(a)
	}
	return out
}

func (it *Interp) hostArg(a Value) interface{} {
	itf, ok := a.(Iface)
	if !ok {
		return toString(a)
	}
	if itf.T == nil {
		return nil
	}
	k, w, signed := basicInfo(itf.T)
	switch v := itf.V.(type) {
	case uint64:
		if k == kInt {
			if signed {
				return int64(v)
			}
			switch w {
			case 8:
				return uint8(v)
			case 16:
				return uint16(v)
			case 32:
				return uint32(v)
			}
			return v
		}
	case string, bool, float64, float32:
		return v
	case []Value:
		b := make([]byte, len(v))
		for i, x := range v {
			c, ok := x.(uint64)
			if !ok {
				return "<symbolic bytes>"
			}
			b[i] = byte(c)
		}
		return b
	case *smt.Term:
		return "<symbolic>"
	}
	// error values
	if m := it.errorString(itf); m != "" {
		return m
	}
	return toString(itf.V)
}

// errorString renders an error value by calling its Error method in the interpreter.
func (it *Interp) errorString(itf Iface) string {
	if itf.T == nil {
		return "<nil>"
	}
	ms := it.P.Prog.MethodSets.MethodSet(itf.T)
	sel := ms.Lookup(nil, "Error")
	if sel == nil {
		return ""
	}
	fn := it.P.Prog.MethodValue(sel)
	if fn == nil {
		return ""
	}
	r := call(it, nil, 0, fn, []Value{itf.V})
	if s, ok := r.(string); ok {
		return s
	}
	return ""
}

func (it *Interp) bytesCompare(a, b []Value) Value {
	// concrete fast path
	conc := true
	for _, x := range a {
		if _, ok := x.(uint64); !ok {
			conc = false
			break
		}
	}
	if conc {
		for _, x := range b {
			if _, ok := x.(uint64); !ok {
				conc = false
				break
			}
		}
	}
	if conc {
		n := len(a)
		if len(b) < n {
			n = len(b)
		}
		for i := 0; i < n; i++ {
			x, y := a[i].(uint64), b[i].(uint64)
			if x < y {
				return norm(^uint64(0), 64, true)
			}
			if x > y {
				return uint64(1)
			}
		}
		switch {
		case len(a) < len(b):
			return norm(^uint64(0), 64, true)
		case len(a) > len(b):
			return uint64(1)
		}
		return uint64(0)
	}
	s := it.st()
	lt, eq := it.bytesCmpTerms(a, b)
	r := s.Ite(lt, s.Const(64, ^uint64(0)), s.Ite(eq, s.Const(64, 0), s.Const(64, 1)))
	return simp(r, true)
}

func (it *Interp) skiplistScore(b []Value) Value {
	l := len(b)
	if l > 8 {
		l = 8
	}
	s := it.st()
	conc := true
	var h uint64
	for i := 0; i < l; i++ {
		c, ok := b[i].(uint64)
		if !ok {
			conc = false
			break
		}
		h |= c << uint(64-8-i*8)
	}
	if conc {
		return float64(h)
	}
	var t *smt.Term
	for i := 0; i < 8; i++ {
		var bt *smt.Term
		if i < l {
			bt = it.term(b[i], 8)
		} else {
			bt = s.Const(8, 0)
		}
		if t == nil {
			t = bt
		} else {
			t = s.Concat(t, bt)
		}
	}
	if l > 6 {
		panic(abort{st: StUnsupported, msg: "skiplist score of symbolic key longer than 6 bytes (float rounding not modelled)"})
	}
	return SymF64{U: t}
}

// ---------- ideal checksum (CRC-32) ----------

type crcApp struct {
	args []Value // covered bytes
	res  Value   // uint64 (concrete real CRC) or term
}

type crcTable struct {
	apps []*crcApp
	byID map[interface{}]*crcApp // result identity -> app
}

func allConcrete(b []Value) ([]byte, bool) {
	out := make([]byte, len(b))
	for i, x := range b {
		c, ok := x.(uint64)
		if !ok {
			return nil, false
		}
		out[i] = byte(c)
	}
	return out, true
}

func (it *Interp) crcApply(prefix []Value, data []Value) Value {
	cov := make([]Value, 0, len(prefix)+len(data))
	cov = append(cov, prefix...)
	cov = append(cov, data...)
	tab := it.crcTab
	if tab.byID == nil {
		tab.byID = map[interface{}]*crcApp{}
	}
	if bs, ok := allConcrete(cov); ok {
		c := uint64(crc32.ChecksumIEEE(bs))
		app := &crcApp{args: cov, res: c}
		tab.byID[c] = app
		tab.apps = append(tab.apps, app)
		it.crcAxioms(app)
		return c
	}
	// syntactically identical coverage => same result
	for _, a := range tab.apps {
		if sameValues(a.args, cov) {
			return a.res
		}
	}
	s := it.st()
	v := s.Var(it.path.FreshName("crc"), 32)
	app := &crcApp{args: cov, res: v}
	tab.apps = append(tab.apps, app)
	tab.byID[v] = app
	it.crcAxioms(app)
	return v
}

func sameValues(a, b []Value) bool {
	if len(a) != len(b) {
		return false
	}
	for i := range a {
		if a[i] != b[i] {
			return false
		}
	}
	return true
}

// crcAxioms: ideal checksum = injective on the applications of this path.
func (it *Interp) crcAxioms(n *crcApp) {
	s := it.st()
	nt, nSym := n.res.(*smt.Term)
	for _, a := range it.crcTab.apps {
		if a == n {
			continue
		}
		at, aSym := a.res.(*smt.Term)
		if !nSym && !aSym {
			continue
		}
		var ra, rn *smt.Term
		if aSym {
			ra = at
		} else {
			ra = s.Const(32, a.res.(uint64))
		}
		if nSym {
			rn = nt
		} else {
			rn = s.Const(32, n.res.(uint64))
		}
		resEq := s.Eq(ra, rn)
		if len(a.args) != len(n.args) {
			it.path.Axiom(s.Not(resEq))
			continue
		}
		argsEq := it.bytesEqTerm(a.args, n.args)
		it.path.Axiom(s.Eq(argsEq, resEq))
	}
}

// crcForgery implements the "no forgery" rule of the ideal checksum: a value that is not itself the result
// of a checksum application never equals a checksum result (2^-32 coincidences and adversarial data are
// outside every claim). Exactly one side being a checksum result decides the comparison as "different".
func (it *Interp) crcForgery(x, y Value) bool {
	tab := it.crcTab
	if tab == nil || tab.byID == nil {
		return false
	}
	isRes := func(v Value) bool {
		switch c := v.(type) {
		case uint64:
			_, ok := tab.byID[norm(c, 32, false)]
			return ok
		case *smt.Term:
			_, ok := tab.byID[c]
			return ok
		}
		return false
	}
	_, xs := x.(*smt.Term)
	_, ys := y.(*smt.Term)
	if !xs && !ys {
		return false
	}
	// a checksum compared with a LITERAL of the program (e.g. "stored checksum == 0 means nothing written here") is
	// program logic, not forged data: the ideal checksum is free to take that value, the solver decides, and the
	// replay forges bytes whose real CRC-32 is that value (crcforge.go)
	// ... provided the coverage holds 4 consecutive free value bytes, i.e. content with that CRC certainly exists and
	// can be constructed; for shorter free content the special value almost surely does not exist: "different".
	forgeable := func(v Value) bool {
		t, ok := v.(*smt.Term)
		if !ok {
			return false
		}
		app := tab.byID[t]
		if app == nil {
			return false
		}
		run := 0
		for _, a := range app.args {
			if at, ok := a.(*smt.Term); ok && at.Op == smt.OpVar && at.W == 8 && !(len(at.Name) >= 3 && at.Name[:3] == "key") {
				run++
				if run >= 4 {
					return true
				}
			} else {
				run = 0
			}
		}
		return false
	}
	// a value stitched together ONLY from bytes of (forgeable) checksum results - e.g. the first bytes of one stored
	// checksum followed by the last bytes of another, as a short read into a reused buffer produces - is not forged
	// data either: whether it equals a checksum is a relation between real checksums, the solver decides
	var onlyResultLanes func(t *smt.Term) bool
	onlyResultLanes = func(t *smt.Term) bool {
		switch t.Op {
		case smt.OpConcat:
			return onlyResultLanes(t.Args[0]) && onlyResultLanes(t.Args[1])
		case smt.OpExtract:
			return tab.byID[t.Args[0]] != nil && forgeable(t.Args[0])
		}
		return false
	}
	if xs && ys && isRes(x) != isRes(y) {
		other, res := x.(*smt.Term), y
		if isRes(x) {
			other, res = y.(*smt.Term), x
		}
		if other.Op == smt.OpConcat && onlyResultLanes(other) && forgeable(res) {
			return false
		}
	}
	if xs != ys {
		if _, ok := x.(uint64); ok && !isRes(x) && isRes(y) && forgeable(y) {
			return false
		}
		if _, ok := y.(uint64); ok && !isRes(y) && isRes(x) && forgeable(x) {
			return false
		}
	}
	return isRes(x) != isRes(y)
}

func (it *Interp) crcUpdate(crc Value, data []Value) Value {
	tab := it.crcTab
	var app *crcApp
	if tab.byID != nil {
		switch c := crc.(type) {
		case uint64:
			app = tab.byID[c]
		case *smt.Term:
			app = tab.byID[c]
		}
	}
	if app == nil {
		if c, ok := crc.(uint64); ok && c == 0 {
			return it.crcApply(nil, data)
		}
		if c, ok := crc.(uint64); ok {
			if bs, ok := allConcrete(data); ok {
				return uint64(crc32.Update(uint32(c), crc32.IEEETable, bs))
			}
		}
		panic(abort{st: StUnsupported, msg: "crc32.Update from a checksum of unknown coverage"})
	}
	return it.crcApply(app.args, data)
}

// ---------- xxhash as an uninterpreted function (Ackermann) ----------

type ufApp struct {
	args []Value
	res  *smt.Term
}

type ufTable struct{ apps []*ufApp }

func (it *Interp) xxhSum(b []Value) Value {
	if bs, ok := allConcrete(b); ok && it.params["xxh_uf"] == 0 {
		return xxhash.Sum64(bs)
	} else if ok {
		_ = bs
	}
	for _, a := range it.xxhTab.apps {
		if sameValues(a.args, b) {
			return a.res
		}
	}
	s := it.st()
	v := s.Var(it.path.FreshName("xxh"), 64)
	app := &ufApp{args: append([]Value(nil), b...), res: v}
	for _, a := range it.xxhTab.apps {
		if len(a.args) != len(b) {
			continue
		}
		it.path.Axiom(s.Implies(it.bytesEqTerm(a.args, b), s.Eq(a.res, v)))
	}
	it.xxhTab.apps = append(it.xxhTab.apps, app)
	return v
}

// ---------- filepath.Walk ----------

func extWalk(fr *Frame, a []Value) Value {
	it := fr.it
	e := it.env
	root := concStr(a[0], "filepath.Walk")
	fn := a[1]
	var walk func(p string) Value
	walk = func(p string) Value {
		cp := clean(p)
		n, ok := e.nodes[cp]
		if !ok {
			return call(it, fr, 0, fn, []Value{p, Iface{}, e.errNotExist()})
		}
		r := call(it, fr, 0, fn, []Value{p, e.statValue(cp, n), Iface{}})
		if r.(Iface).T != nil {
			return r
		}
		if n.isDir {
			for _, k := range e.children(cp) {
				if r := walk(filepath.Join(p, filepath.Base(k))); r.(Iface).T != nil {
					return r
				}
			}
		}
		return Iface{}
	}
	return walk(root)
}

var _ = ssa.NaiveForm

// fdOffsetKey identifies the file offset of one open file description for the happens-before check.
type fdOffsetKey struct{ of *openFile }
