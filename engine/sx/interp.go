package sx

import (
	"fmt"
	"go/token"
	"go/types"
	"runtime"
	"strings"
	"sync"

	"golang.org/x/tools/go/ssa"

	"gosx/smt"
)

// targetPanic is a panic of the interpreted program.
type targetPanic struct {
	v     Value
	stack string
}

// fatalError is an unrecoverable failure of the interpreted process (deadlock, SIGBUS,
// unlock of unlocked mutex, concurrent map write...). Not catchable by recover().
type fatalError struct {
	msg string
}

type ExtFn func(fr *Frame, args []Value) Value

type fnInfo struct {
	slots map[ssa.Value]int32
	n     int
	// per block: index of first non-phi
	firstNonPhi map[*ssa.BasicBlock]int
	name        string
	ext         ExtFn
	intrinsic   ExtFn
	isInit      bool
	needCheck   bool // function of a non-interpreted package: must be pureOK
}

var fnInfoCache sync.Map // *ssa.Function -> *fnInfo

func getFnInfo(fn *ssa.Function) *fnInfo {
	if v, ok := fnInfoCache.Load(fn); ok {
		return v.(*fnInfo)
	}
	fi := &fnInfo{slots: map[ssa.Value]int32{}, firstNonPhi: map[*ssa.BasicBlock]int{}}
	fi.name = fn.String()
	if fn.Parent() == nil {
		fi.isInit = fn.Synthetic == "package initializer"
		fi.ext = externals[fi.name]
		if fn.Pkg != nil && strings.HasPrefix(fn.Name(), "verif") {
			fi.intrinsic = intrinsics[fn.Name()]
		}
	}
	add := func(v ssa.Value) {
		if _, ok := fi.slots[v]; !ok {
			fi.slots[v] = int32(fi.n)
			fi.n++
		}
	}
	for _, p := range fn.Params {
		add(p)
	}
	for _, f := range fn.FreeVars {
		add(f)
	}
	for _, b := range fn.Blocks {
		fnp := len(b.Instrs)
		for i, in := range b.Instrs {
			if _, ok := in.(*ssa.Phi); !ok && i < fnp {
				fnp = i
			}
			if v, ok := in.(ssa.Value); ok {
				add(v)
			}
		}
		fi.firstNonPhi[b] = fnp
	}
	v, _ := fnInfoCache.LoadOrStore(fn, fi)
	return v.(*fnInfo)
}

type deferred struct {
	fn    Value
	args  []Value
	instr *ssa.Defer
	tail  *deferred
}

type Frame struct {
	it               *Interp
	caller           *Frame
	fn               *ssa.Function
	info             *fnInfo
	regs             []Value
	block, prevBlock *ssa.BasicBlock
	defers           *deferred
	result           Value
	panicking        bool
	panicV           interface{}
	phitemps         []Value
	callpos          token.Pos
	curInstr         ssa.Instruction
}

// Program is the immutable, shared part (SSA + tables).
type Program struct {
	Prog       *ssa.Program
	Pkgs       map[string]*ssa.Package // by import path
	ModulePath string                  // repo module path
	InitOK     func(pkgPath string) bool
	runtimeErr types.Type
	Sizes      types.Sizes
}

// Interp is the per-path mutable state.
type Interp struct {
	P              *Program
	path           *Path
	globals        map[*ssa.Global]*Value
	inited         map[*ssa.Package]bool
	parentOf       map[*Value]*Value
	env            *Env
	params         map[string]int64
	cur            *Thread
	sched          *Scheduler
	depth          int
	hostSide       map[*Value]interface{} // state for sync.Mutex, sync.Pool, ... keyed by receiver cell
	crcTab         *crcTable
	xxhTab         *ufTable
	replay         *ReplayLog
	heapSeq        int
	violationModel smt.Model
	known          map[string]bool
	permuteMaps    bool
	top            *Frame
	ckptFS         map[string][]Value
	race           *raceState
}

func (fr *Frame) get(key ssa.Value) Value {
	switch key := key.(type) {
	case nil:
		return nil
	case *ssa.Function:
		return key
	case *ssa.Builtin:
		return key
	case *ssa.Const:
		return constValue(key)
	case *ssa.Global:
		return fr.it.globalAddr(key)
	}
	if s, ok := fr.info.slots[key]; ok {
		return fr.regs[s]
	}
	panic(abort{st: StInternal, msg: fmt.Sprintf("get: no value for %T: %v in %s", key, key.Name(), fr.fn)})
}

func (fr *Frame) set(key ssa.Value, v Value) {
	fr.regs[fr.info.slots[key]] = v
}

func (it *Interp) globalAddr(g *ssa.Global) *Value {
	if a, ok := it.globals[g]; ok {
		return a
	}
	if g.Pkg != nil && !it.inited[g.Pkg] {
		// globals of packages whose init is not run may only be used if their zero value is all there is
		if !it.P.InitOK(g.Pkg.Pkg.Path()) && !opaqueGlobalOK[g.String()] {
			panic(abort{st: StUnsupported, msg: "global of uninitialised package: " + g.String()})
		}
	}
	cell := zero(deref(g.Type()))
	// os.ErrNotExist & co alias the io/fs sentinels (package os itself is not initialised)
	switch g.String() {
	case "os.ErrNotExist", "os.ErrExist", "os.ErrPermission", "os.ErrClosed", "os.ErrInvalid":
		cell = it.fsSentinel(g.Name())
	}
	a := &cell
	it.globals[g] = a
	return a
}

// globals of non-interpreted packages that are only ever passed to intercepted functions
var opaqueGlobalOK = map[string]bool{"hash/crc32.IEEETable": true, "os.ErrNotExist": true, "os.ErrExist": true, "os.ErrPermission": true, "os.ErrClosed": true, "os.ErrInvalid": true}

func constValue(c *ssa.Const) Value {
	if c.Value == nil {
		return zero(c.Type())
	}
	t, ok := c.Type().Underlying().(*types.Basic)
	if !ok {
		panic(abort{st: StUnsupported, msg: fmt.Sprintf("constValue: %s", c)})
	}
	k, w, signed := basicInfo(t)
	switch k {
	case kBool:
		return c.Value.String() == "true"
	case kInt:
		if signed {
			return norm(uint64(c.Int64()), w, true)
		}
		return norm(c.Uint64(), w, false)
	case kFloat32:
		return float32(c.Float64())
	case kFloat64:
		return c.Float64()
	case kComplex:
		return c.Complex128()
	case kString:
		if c.Value.Kind().String() == "String" {
			return constantStringVal(c)
		}
		return string(rune(c.Int64()))
	}
	panic(abort{st: StUnsupported, msg: fmt.Sprintf("constValue: %s", c)})
}

func (fr *Frame) runDefer(d *deferred) {
	var ok bool
	defer func() {
		if !ok {
			r := recover()
			if isEngineControl(r) {
				panic(r)
			}
			fr.panicking = true
			fr.panicV = r
		}
	}()
	call(fr.it, fr, d.instr.Pos(), d.fn, d.args)
	ok = true
}

func (fr *Frame) runDefers() {
	for d := fr.defers; d != nil; d = d.tail {
		fr.runDefer(d)
	}
	fr.defers = nil
	if fr.panicking {
		panic(fr.panicV)
	}
}

// isEngineControl: panics that must unwind through interpreted frames untouched.
func isEngineControl(r interface{}) bool {
	switch r.(type) {
	case abort, crashSignal, fatalError, threadKill:
		return true
	case runtime.Error:
		return true // host runtime error = engine bug; do not let target code recover it
	}
	return false
}

func (it *Interp) lookupMethod(typ types.Type, meth *types.Func) *ssa.Function {
	return it.P.Prog.LookupMethod(typ, meth.Pkg(), meth.Name())
}

func (it *Interp) rtPanic(msg string) {
	panic(targetPanic{v: Iface{T: it.P.runtimeErr, V: "runtime error: " + msg}, stack: it.stackString()})
}

func (it *Interp) stackString() string {
	if it.top == nil {
		return ""
	}
	return it.top.stack()
}

func (fr *Frame) stack() string {
	var sb strings.Builder
	n := 0
	for f := fr; f != nil && n < 12; f = f.caller {
		fmt.Fprintf(&sb, "%s <- ", f.fn.String())
		n++
	}
	return sb.String()
}

const (
	kNext = iota
	kReturn
	kJump
)

func visitInstr(fr *Frame, instr ssa.Instruction) int {
	it := fr.it
	p := it.path
	fr.curInstr = instr
	p.steps++
	if p.steps > p.lim.MaxSteps {
		panic(abort{st: StBudget, msg: fmt.Sprintf("step budget %d exhausted in %s", p.lim.MaxSteps, fr.fn)})
	}
	switch instr := instr.(type) {
	case *ssa.DebugRef:

	case *ssa.UnOp:
		fr.set(instr, it.unop(fr, instr, fr.get(instr.X)))

	case *ssa.BinOp:
		fr.set(instr, it.binop(instr.Op, instr.X.Type(), instr.Y.Type(), fr.get(instr.X), fr.get(instr.Y)))

	case *ssa.Call:
		fn, args := prepareCall(fr, &instr.Call)
		fr.set(instr, call(it, fr, instr.Pos(), fn, args))

	case *ssa.ChangeInterface:
		fr.set(instr, fr.get(instr.X))

	case *ssa.ChangeType:
		fr.set(instr, fr.get(instr.X))

	case *ssa.Convert:
		fr.set(instr, it.conv(instr.Type(), instr.X.Type(), fr.get(instr.X)))

	case *ssa.SliceToArrayPointer:
		fr.set(instr, it.sliceToArrayPointer(instr.Type(), fr.get(instr.X)))

	case *ssa.MakeInterface:
		fr.set(instr, Iface{T: instr.X.Type(), V: fr.get(instr.X)})

	case *ssa.Extract:
		fr.set(instr, fr.get(instr.Tuple).(Tuple)[instr.Index])

	case *ssa.Slice:
		fr.set(instr, it.slice(instr.X.Type(), fr.get(instr.X), fr.get(instr.Low), fr.get(instr.High), fr.get(instr.Max)))

	case *ssa.Return:
		switch len(instr.Results) {
		case 0:
		case 1:
			fr.result = fr.get(instr.Results[0])
		default:
			res := make(Tuple, len(instr.Results))
			for i, r := range instr.Results {
				res[i] = fr.get(r)
			}
			fr.result = res
		}
		fr.block = nil
		return kReturn

	case *ssa.RunDefers:
		fr.runDefers()

	case *ssa.Panic:
		panic(targetPanic{v: fr.get(instr.X), stack: fr.stack()})

	case *ssa.Send:
		panic(abort{st: StUnsupported, msg: "channel send"})

	case *ssa.Store:
		addr := fr.get(instr.Addr).(*Value)
		if addr == nil {
			it.rtPanic("invalid memory address or nil pointer dereference")
		}
		it.noteWrite(addr)
		if _, bus := (*addr).(sigbus); bus {
			panic(fatalError{"SIGBUS: write to mapped memory beyond end of file"})
		}
		store(deref(instr.Addr.Type()), addr, fr.get(instr.Val))

	case *ssa.If:
		succ := 1
		var b bool
		switch c := fr.get(instr.Cond).(type) {
		case bool:
			b = c
		case *smt.Term:
			b = p.Branch(c)
		default:
			panic(abort{st: StInternal, msg: fmt.Sprintf("If on %T", c)})
		}
		if b {
			succ = 0
		}
		fr.prevBlock, fr.block = fr.block, fr.block.Succs[succ]
		return kJump

	case *ssa.Jump:
		fr.prevBlock, fr.block = fr.block, fr.block.Succs[0]
		return kJump

	case *ssa.Defer:
		fn, args := prepareCall(fr, &instr.Call)
		defers := &fr.defers
		if instr.DeferStack != nil {
			if into := fr.get(instr.DeferStack); into != nil {
				defers = into.(**deferred)
			}
		}
		*defers = &deferred{fn: fn, args: args, instr: instr, tail: *defers}

	case *ssa.Go:
		fn, args := prepareCall(fr, &instr.Call)
		it.spawn(fr, instr.Pos(), fn, args)

	case *ssa.MakeChan:
		fr.set(instr, &Chan{})

	case *ssa.Alloc:
		var addr *Value
		if instr.Heap {
			addr = new(Value)
			fr.set(instr, addr)
		} else {
			addr = fr.get(instr).(*Value)
		}
		*addr = zero(deref(instr.Type()))

	case *ssa.MakeSlice:
		n := it.concInt(fr.get(instr.Len), "make len")
		c := it.concInt(fr.get(instr.Cap), "make cap")
		if n < 0 || c < n || c > 1<<31 {
			it.rtPanic("makeslice: len out of range")
		}
		sl := make([]Value, c)
		tElt := instr.Type().Underlying().(*types.Slice).Elem()
		if isScalarType(tElt) {
			z := zero(tElt)
			for i := range sl {
				sl[i] = z
			}
		} else {
			for i := range sl {
				sl[i] = zero(tElt)
			}
		}
		fr.set(instr, sl[:n])

	case *ssa.MakeMap:
		fr.set(instr, newMap(instr.Type().Underlying().(*types.Map).Key()))

	case *ssa.Range:
		fr.set(instr, it.rangeIter(fr.get(instr.X), instr.X.Type()))

	case *ssa.Next:
		fr.set(instr, fr.get(instr.Iter).(rangeIter).next(it))

	case *ssa.FieldAddr:
		x := fr.get(instr.X).(*Value)
		if x == nil {
			it.rtPanic("invalid memory address or nil pointer dereference")
		}
		fa := &(*x).(Struct)[instr.Field]
		if instr.Field == 0 {
			it.parentOf[fa] = x
		}
		fr.set(instr, fa)

	case *ssa.Field:
		fr.set(instr, copyVal(fr.get(instr.X).(Struct)[instr.Field]))

	case *ssa.IndexAddr:
		x := fr.get(instr.X)
		switch x := x.(type) {
		case []Value:
			i := it.index(fr.get(instr.Index), len(x))
			fr.set(instr, &x[i])
		case *Value:
			if x == nil {
				it.rtPanic("invalid memory address or nil pointer dereference")
			}
			a := (*x).(Array)
			i := it.index(fr.get(instr.Index), len(a))
			fr.set(instr, &a[i])
		default:
			panic(abort{st: StInternal, msg: fmt.Sprintf("IndexAddr on %T", x)})
		}

	case *ssa.Index:
		x := fr.get(instr.X)
		switch x := x.(type) {
		case Array:
			i := it.index(fr.get(instr.Index), len(x))
			fr.set(instr, copyVal(x[i]))
		case string:
			i := it.index(fr.get(instr.Index), len(x))
			fr.set(instr, uint64(x[i]))
		case *SymStr:
			i := it.index(fr.get(instr.Index), len(x.B))
			fr.set(instr, x.B[i])
		default:
			panic(abort{st: StInternal, msg: fmt.Sprintf("Index on %T", x)})
		}

	case *ssa.Lookup:
		fr.set(instr, it.lookup(instr, fr.get(instr.X), fr.get(instr.Index)))

	case *ssa.MapUpdate:
		m := fr.get(instr.Map).(*Map)
		if m == nil {
			panic(targetPanic{v: Iface{T: it.P.runtimeErr, V: "assignment to entry in nil map"}, stack: fr.stack()})
		}
		it.mapInsert(m, fr.get(instr.Key), fr.get(instr.Value))

	case *ssa.TypeAssert:
		fr.set(instr, it.typeAssert(instr, fr.get(instr.X).(Iface)))

	case *ssa.MakeClosure:
		bindings := make([]Value, len(instr.Bindings))
		for i, b := range instr.Bindings {
			bindings[i] = fr.get(b)
		}
		fr.set(instr, &Closure{instr.Fn.(*ssa.Function), bindings})

	case *ssa.Select:
		// Supported: select whose cases are receives; a receive is ready iff the channel is closed (channels carry no
		// values in this engine; a nil channel - e.g. the never-firing ticker - is never ready). A blocking select
		// parks the goroutine until one of its channels is closed.
		ready := func() int {
			for i, st := range instr.States {
				if st.Dir != types.RecvOnly {
					panic(abort{st: StUnsupported, msg: "select send"})
				}
				ch := fr.get(st.Chan).(*Chan)
				if ch != nil && ch.closed {
					return i
				}
			}
			return -1
		}
		chosen := ready()
		if chosen < 0 && instr.Blocking {
			it.sched.block("select", func() bool { return ready() >= 0 })
			chosen = ready()
		}
		r := Tuple{norm(uint64(int64(chosen)), 64, true), false}
		for _, st := range instr.States {
			r = append(r, zero(st.Chan.Type().Underlying().(*types.Chan).Elem()))
		}
		fr.set(instr, r)

	default:
		panic(abort{st: StUnsupported, msg: fmt.Sprintf("instruction %T", instr)})
	}
	return kNext
}

func prepareCall(fr *Frame, cc *ssa.CallCommon) (fn Value, args []Value) {
	v := fr.get(cc.Value)
	if cc.Method == nil {
		fn = v
		args = make([]Value, 0, len(cc.Args))
	} else {
		recv := v.(Iface)
		if recv.T == nil {
			fr.it.rtPanic("invalid memory address or nil pointer dereference (method on nil interface)")
		}
		f := fr.it.lookupMethod(recv.T, cc.Method)
		if f == nil {
			panic(abort{st: StInternal, msg: fmt.Sprintf("method set for %v lacks %s", recv.T, cc.Method)})
		}
		fn = f
		args = make([]Value, 0, len(cc.Args)+1)
		args = append(args, recv.V)
	}
	for _, a := range cc.Args {
		args = append(args, copyVal(fr.get(a)))
	}
	return
}

func call(it *Interp, caller *Frame, callpos token.Pos, fn Value, args []Value) Value {
	switch fn := fn.(type) {
	case *ssa.Function:
		if fn == nil {
			it.rtPanic("invalid memory address or nil pointer dereference (call of nil func)")
		}
		return callSSA(it, caller, callpos, fn, args, nil)
	case *Closure:
		return callSSA(it, caller, callpos, fn.Fn, args, fn.Env)
	case *ssa.Builtin:
		return it.callBuiltin(caller, callpos, fn, args)
	}
	panic(abort{st: StInternal, msg: fmt.Sprintf("cannot call %T", fn)})
}

func callSSA(it *Interp, caller *Frame, callpos token.Pos, fn *ssa.Function, args []Value, env []Value) Value {
	fr := &Frame{it: it, caller: caller, fn: fn, callpos: callpos}
	fr.info = getFnInfo(fn)
	if fn.Parent() == nil {
		fi := fr.info
		if fi.isInit {
			if it.inited[fn.Pkg] || !it.P.InitOK(fn.Pkg.Pkg.Path()) {
				return nil
			}
			it.inited[fn.Pkg] = true
		} else {
			if fi.intrinsic != nil && strings.HasPrefix(fn.Pkg.Pkg.Path(), it.P.ModulePath) {
				return fi.intrinsic(fr, args)
			}
			if fi.ext != nil {
				return fi.ext(fr, args)
			}
			if fn.Blocks == nil {
				panic(abort{st: StUnsupported, msg: "external function without model: " + fi.name})
			}
			if fn.Pkg != nil && !it.P.InitOK(fn.Pkg.Pkg.Path()) && !pureOK(fn) {
				panic(abort{st: StUnsupported, msg: "function of non-interpreted package without model: " + fi.name})
			}
		}
	}
	if fn.TypeParams().Len() > 0 && len(fn.TypeArgs()) == 0 {
		panic(abort{st: StInternal, msg: "uninstantiated generic " + fn.String()})
	}
	it.depth++
	if it.depth > 2000 {
		panic(abort{st: StBudget, msg: "call depth exceeded in " + fn.String()})
	}
	saveTop := it.top
	it.top = fr
	defer func() { it.depth--; it.top = saveTop }()
	if it.path.funcSet != nil {
		it.path.funcSet[fr.info] = struct{}{}
	}
	fr.regs = make([]Value, fr.info.n)
	fr.block = fn.Blocks[0]
	for _, l := range fn.Locals {
		cell := zero(deref(l.Type()))
		fr.regs[fr.info.slots[l]] = &cell
	}
	for i, p := range fn.Params {
		fr.regs[fr.info.slots[p]] = args[i]
	}
	for i, fv := range fn.FreeVars {
		fr.regs[fr.info.slots[fv]] = env[i]
	}
	for fr.block != nil {
		runFrame(fr)
	}
	return fr.result
}

func runFrame(fr *Frame) {
	defer func() {
		if fr.block == nil {
			return // normal return
		}
		r := recover()
		if isEngineControl(r) {
			panic(r)
		}
		fr.panicking = true
		fr.panicV = r
		fr.runDefers()
		fr.block = fr.fn.Recover
		if fr.block == nil {
			// recovered, function without named results: return zero values
			fr.result = zeroResult(fr.fn)
		}
	}()
	for {
		instrs := executePhis(fr)
		for _, instr := range instrs {
			if visitInstr(fr, instr) == kReturn {
				return
			}
		}
	}
}

func zeroResult(fn *ssa.Function) Value {
	res := fn.Signature.Results()
	switch res.Len() {
	case 0:
		return nil
	case 1:
		return zero(res.At(0).Type())
	}
	t := make(Tuple, res.Len())
	for i := range t {
		t[i] = zero(res.At(i).Type())
	}
	return t
}

func executePhis(fr *Frame) []ssa.Instruction {
	fnp := fr.info.firstNonPhi[fr.block]
	instrs := fr.block.Instrs
	if fnp > 0 {
		predIndex := -1
		for i, pb := range fr.block.Preds {
			if pb == fr.prevBlock {
				predIndex = i
				break
			}
		}
		fr.phitemps = fr.phitemps[:0]
		for _, phi := range instrs[:fnp] {
			fr.phitemps = append(fr.phitemps, fr.get(phi.(*ssa.Phi).Edges[predIndex]))
		}
		for i, phi := range instrs[:fnp] {
			fr.set(phi.(*ssa.Phi), fr.phitemps[i])
		}
		fr.it.path.steps += int64(fnp)
	}
	return instrs[fnp:]
}

func doRecover(caller *Frame) Value {
	if caller != nil && !caller.panicking && caller.caller != nil && caller.caller.panicking {
		caller.caller.panicking = false
		p := caller.caller.panicV
		caller.caller.panicV = nil
		switch p := p.(type) {
		case targetPanic:
			return p.v
		default:
			panic(abort{st: StInternal, msg: fmt.Sprintf("unexpected panic type %T in recover: %v", p, p)})
		}
	}
	return Iface{}
}

// pureOK: functions from packages whose init is skipped may still be interpreted when they are known
// not to depend on package state.
func pureOK(fn *ssa.Function) bool {
	if fn.Pkg == nil {
		return true // synthetic wrappers, generic instantiations
	}
	switch fn.String() {
	case "(*errors.errorString).Error", "(*fmt.wrapError).Error", "(*fmt.wrapError).Unwrap":
		return true
	}
	switch fn.Pkg.Pkg.Path() {
	case "unicode/utf8", "math", "cmp", "internal/bytealg", "unsafe", "internal/byteorder", "math/rand":
		return true
	}
	return false
}
