// Package sx: a symbolic interpreter for go/ssa.
//
// Structure (frames on the host stack, boxed values, cells addressed by Go pointers)
// follows golang.org/x/tools/go/ssa/interp (BSD-style licence, The Go Authors), whose
// instruction semantics are the reference. Integers are uniform uint64 (canonical form:
// the Go conversion of the typed value to uint64), scalars may be SMT terms.
package sx

import (
	"fmt"
	"go/types"
	"math"
	"strings"

	"golang.org/x/tools/go/ssa"

	"gosx/smt"
)

type Value interface{}

// Dynamic types held in a Value:
//   uint64            every concrete integer (canonical: sign-/zero-extended to 64 bits per static type)
//   bool, string, float64, float32, complex128
//   *smt.Term         symbolic integer (W = type width) or symbolic bool (W = 0)
//   *SymStr           string with symbolic bytes (concrete length)
//   SymF64            float64(uint64 term), exact (see ops)
//   *Value            pointer
//   Struct, Array     aggregates (stored by reference in a cell; copied on load/store)
//   []Value           slice
//   *Map, *Chan
//   Iface             interface value
//   *ssa.Function, *ssa.Builtin, *Closure
//   Tuple
//   *HostObj          opaque engine-side object (os.File, flock, ...)

type Struct []Value
type Array []Value
type Tuple []Value

type Iface struct {
	T types.Type
	V Value
}

type Closure struct {
	Fn  *ssa.Function
	Env []Value
}

type SymStr struct {
	B []Value // each uint64 or *smt.Term (8 bit)
}

// SymF64 is float64(U) for a 64-bit unsigned term U whose low 11 bits are known zero... or
// more generally any U for which the conversion is exact (checked at creation).
type SymF64 struct {
	U   *smt.Term
	Neg bool
}

type HostObj struct {
	Kind string
	X    interface{}
}

type Chan struct {
	closed bool
}

type mapEntry struct {
	k, v    Value
	deleted bool
}

// Map keeps insertion order; keys may be symbolic.
type Map struct {
	keyT    types.Type
	entries []*mapEntry
	idx     map[interface{}]*mapEntry // concrete comparable keys only
	n       int
}

type rangeIter interface {
	next(it *Interp) Tuple
}

type bad struct{}

type rtype struct{ t types.Type }

// ---------- type helpers ----------

type kind uint8

const (
	kInvalid kind = iota
	kBool
	kInt // any integer incl. uintptr
	kFloat32
	kFloat64
	kComplex
	kString
	kUnsafePtr
	kOther
)

func basicInfo(t types.Type) (k kind, w uint8, signed bool) {
	b, ok := t.Underlying().(*types.Basic)
	if !ok {
		return kOther, 0, false
	}
	switch b.Kind() {
	case types.Bool, types.UntypedBool:
		return kBool, 0, false
	case types.Int, types.Int64, types.UntypedInt:
		return kInt, 64, true
	case types.Int8:
		return kInt, 8, true
	case types.Int16:
		return kInt, 16, true
	case types.Int32, types.UntypedRune:
		return kInt, 32, true
	case types.Uint, types.Uint64, types.Uintptr:
		return kInt, 64, false
	case types.Uint8:
		return kInt, 8, false
	case types.Uint16:
		return kInt, 16, false
	case types.Uint32:
		return kInt, 32, false
	case types.Float32:
		return kFloat32, 32, true
	case types.Float64, types.UntypedFloat:
		return kFloat64, 64, true
	case types.Complex64, types.Complex128, types.UntypedComplex:
		return kComplex, 128, false
	case types.String, types.UntypedString:
		return kString, 0, false
	case types.UnsafePointer:
		return kUnsafePtr, 64, false
	case types.UntypedNil:
		return kOther, 0, false
	}
	return kInvalid, 0, false
}

// norm brings x into canonical form for an integer type of width w.
func norm(x uint64, w uint8, signed bool) uint64 {
	if w >= 64 {
		return x
	}
	if signed {
		sh := 64 - uint(w)
		return uint64(int64(x<<sh) >> sh)
	}
	return x & ((uint64(1) << w) - 1)
}

func deref(t types.Type) types.Type {
	if p, ok := t.Underlying().(*types.Pointer); ok {
		return p.Elem()
	}
	panic(fmt.Sprintf("deref: not a pointer: %s", t))
}

// zero returns the zero value of type t.
func zero(t types.Type) Value {
	switch t := t.(type) {
	case *types.Basic:
		if t.Kind() == types.UntypedNil {
			panic("untyped nil has no zero value")
		}
		k, _, _ := basicInfo(t)
		switch k {
		case kBool:
			return false
		case kInt:
			return uint64(0)
		case kFloat32:
			return float32(0)
		case kFloat64:
			return float64(0)
		case kComplex:
			return complex128(0)
		case kString:
			return ""
		case kUnsafePtr:
			return (*Value)(nil)
		}
		panic(fmt.Sprintf("zero for unexpected basic type %v", t))
	case *types.Pointer:
		return (*Value)(nil)
	case *types.Array:
		a := make(Array, t.Len())
		for i := range a {
			a[i] = zero(t.Elem())
		}
		return a
	case *types.Named:
		return zero(t.Underlying())
	case *types.Alias:
		return zero(types.Unalias(t))
	case *types.Interface:
		return Iface{}
	case *types.Slice:
		return []Value(nil)
	case *types.Struct:
		s := make(Struct, t.NumFields())
		for i := range s {
			s[i] = zero(t.Field(i).Type())
		}
		return s
	case *types.Tuple:
		if t.Len() == 1 {
			return zero(t.At(0).Type())
		}
		s := make(Tuple, t.Len())
		for i := range s {
			s[i] = zero(t.At(i).Type())
		}
		return s
	case *types.Chan:
		return (*Chan)(nil)
	case *types.Map:
		return (*Map)(nil)
	case *types.Signature:
		return (*ssa.Function)(nil)
	}
	panic(fmt.Sprintf("zero: unexpected type %T %v", t, t))
}

// load returns a copy of the value of type T in *addr.
func load(T types.Type, addr *Value) Value {
	switch T := T.Underlying().(type) {
	case *types.Struct:
		v := (*addr).(Struct)
		a := make(Struct, len(v))
		for i := range a {
			a[i] = load(T.Field(i).Type(), &v[i])
		}
		return a
	case *types.Array:
		v := (*addr).(Array)
		a := make(Array, len(v))
		et := T.Elem()
		if isScalarType(et) {
			copy(a, v)
			return a
		}
		for i := range a {
			a[i] = load(et, &v[i])
		}
		return a
	default:
		return *addr
	}
}

func isScalarType(t types.Type) bool {
	switch t.Underlying().(type) {
	case *types.Struct, *types.Array:
		return false
	}
	return true
}

// store stores v of type T into *addr (element-wise for aggregates, so interior pointers stay valid).
func store(T types.Type, addr *Value, v Value) {
	switch T := T.Underlying().(type) {
	case *types.Struct:
		lhs := (*addr).(Struct)
		rhs := v.(Struct)
		for i := range lhs {
			store(T.Field(i).Type(), &lhs[i], rhs[i])
		}
	case *types.Array:
		lhs := (*addr).(Array)
		rhs := v.(Array)
		et := T.Elem()
		if isScalarType(et) {
			copy(lhs, rhs)
			return
		}
		for i := range lhs {
			store(et, &lhs[i], rhs[i])
		}
	default:
		*addr = v
	}
}

// copyVal deep-copies aggregates (value semantics), used when passing structs by value.
func copyVal(v Value) Value {
	switch v := v.(type) {
	case Struct:
		a := make(Struct, len(v))
		for i := range v {
			a[i] = copyVal(v[i])
		}
		return a
	case Array:
		a := make(Array, len(v))
		for i := range v {
			a[i] = copyVal(v[i])
		}
		return a
	}
	return v
}

// ---------- maps ----------

func newMap(kt types.Type) *Map {
	return &Map{keyT: kt, idx: map[interface{}]*mapEntry{}}
}

func concreteKey(k Value) (interface{}, bool) {
	switch k := k.(type) {
	case uint64, bool, string, float64, float32, *Value, *Chan:
		return k, true
	case Iface:
		if k.T == nil {
			return "<nil-iface>", true
		}
		if ck, ok := concreteKey(k.V); ok {
			return ifaceKey{typeKey(k.T), ck}, true
		}
	case Array:
		var sb strings.Builder
		for _, e := range k {
			ck, ok := concreteKey(e)
			if !ok {
				return nil, false
			}
			fmt.Fprintf(&sb, "%T:%v|", ck, ck)
		}
		return "arr:" + sb.String(), true
	case Struct:
		var sb strings.Builder
		for _, e := range k {
			ck, ok := concreteKey(e)
			if !ok {
				return nil, false
			}
			fmt.Fprintf(&sb, "%T:%v|", ck, ck)
		}
		return "str:" + sb.String(), true
	}
	return nil, false
}

type ifaceKey struct {
	t string
	k interface{}
}

func typeKey(t types.Type) string { return types.TypeString(t, nil) }

func (m *Map) Len() int {
	if m == nil {
		return 0
	}
	return m.n
}

// ---------- printing ----------

func toString(v Value) string {
	var sb strings.Builder
	writeValue(&sb, v, 0)
	return sb.String()
}

func writeValue(sb *strings.Builder, v Value, depth int) {
	if depth > 6 {
		sb.WriteString("…")
		return
	}
	switch v := v.(type) {
	case nil:
		sb.WriteString("<nil>")
	case uint64:
		fmt.Fprintf(sb, "%d", v)
	case bool, string, float64, float32, complex128:
		fmt.Fprintf(sb, "%v", v)
	case *smt.Term:
		sb.WriteString(v.String())
	case *SymStr:
		sb.WriteString("symstr[")
		for i, b := range v.B {
			if i > 0 {
				sb.WriteByte(' ')
			}
			writeValue(sb, b, depth+1)
		}
		sb.WriteByte(']')
	case *Value:
		if v == nil {
			sb.WriteString("<nil>")
		} else {
			fmt.Fprintf(sb, "%p", v)
		}
	case Iface:
		if v.T == nil {
			sb.WriteString("<nil>")
			return
		}
		fmt.Fprintf(sb, "(%s, ", v.T)
		writeValue(sb, v.V, depth+1)
		sb.WriteString(")")
	case Struct:
		sb.WriteString("{")
		for i, e := range v {
			if i > 0 {
				sb.WriteString(" ")
			}
			writeValue(sb, e, depth+1)
		}
		sb.WriteString("}")
	case Array:
		writeSeq(sb, []Value(v), depth)
	case []Value:
		writeSeq(sb, v, depth)
	case Tuple:
		writeSeq(sb, []Value(v), depth)
	case *Map:
		fmt.Fprintf(sb, "map[%d entries]", v.Len())
	default:
		fmt.Fprintf(sb, "<%T>", v)
	}
}

func writeSeq(sb *strings.Builder, v []Value, depth int) {
	sb.WriteString("[")
	for i, e := range v {
		if i > 16 {
			sb.WriteString(" …")
			break
		}
		if i > 0 {
			sb.WriteString(" ")
		}
		writeValue(sb, e, depth+1)
	}
	sb.WriteString("]")
}

func f64bits(f float64) uint64 { return math.Float64bits(f) }
