package sx

import (
	"fmt"
	"go/token"
)

// Interpreted goroutines run on host goroutines, one at a time (baton passing).
// Context switches happen only at visible operations (sync, atomic, FS, spawn/exit)
// and every scheduling decision is a choice point of the path.

type threadKill struct{}

type Thread struct {
	id      int
	wake    chan bool // true = run, false = die
	done    bool
	blocked func() bool // non-nil: thread is blocked until this returns true
	why     string
	clock   int
}

type Scheduler struct {
	it          *Interp
	threads     []*Thread
	cur         *Thread
	preemptions int
	MaxPreempt  int
	mainWake    chan struct{}
	failure     interface{} // panic value raised in a non-main thread, re-raised on main
	events      []SyncEvent
	record      bool
	logical     int
	switches    []string // human-readable context switches of this path
}

func newScheduler(it *Interp) *Scheduler {
	s := &Scheduler{it: it, MaxPreempt: 2}
	if v, ok := it.params["preempt"]; ok {
		s.MaxPreempt = int(v)
	}
	return s
}

func (s *Scheduler) runMain(f func()) {
	t := &Thread{id: 0, wake: make(chan bool, 1)}
	s.threads = []*Thread{t}
	s.cur = t
	f()
	// main finished: remaining threads must be joined by the harness; anything still alive is abandoned
}

func (s *Scheduler) killAll() {
	for _, t := range s.threads {
		if t != nil && !t.done && t.id != 0 && t != s.cur {
			select {
			case t.wake <- false:
			default:
			}
		}
	}
}

func (s *Scheduler) multi() bool {
	n := 0
	for _, t := range s.threads {
		if !t.done {
			n++
		}
	}
	return n > 1
}

func (s *Scheduler) runnable() []*Thread {
	var out []*Thread
	for _, t := range s.threads {
		if t.done {
			continue
		}
		if t.blocked != nil {
			if !t.blocked() {
				continue
			}
		}
		out = append(out, t)
	}
	return out
}

// spawn starts a new interpreted goroutine; it becomes runnable, the parent continues.
func (it *Interp) spawn(fr *Frame, pos token.Pos, fn Value, args []Value) {
	s := it.sched
	t := &Thread{id: len(s.threads), wake: make(chan bool, 1)}
	s.threads = append(s.threads, t)
	it.raceFork(t.id)
	s.logEvent(SyncEvent{Kind: "fork", Thread: s.cur.id, Other: t.id})
	go func() {
		run := <-t.wake
		if !run {
			return
		}
		defer func() {
			r := recover()
			t.done = true
			if _, ok := r.(threadKill); ok {
				return
			}
			if r != nil {
				// failure in a non-main thread: hand it to main
				if tp, ok := r.(targetPanic); ok {
					r = targetPanic{v: tp.v, stack: fmt.Sprintf("[goroutine %d] %s", t.id, tp.stack)}
				}
				s.failure = r
				s.cur = s.threads[0]
				s.threads[0].wake <- true
				return
			}
			s.logEvent(SyncEvent{Kind: "exit", Thread: t.id})
			// pick the next thread
			s.switchFromDead()
		}()
		call(it, nil, pos, fn, args)
	}()
	s.yield("spawn")
}

func (s *Scheduler) switchFromDead() {
	rs := s.runnable()
	if len(rs) == 0 {
		// everyone else is blocked: deadlock, report on main
		s.failure = fatalError{"all goroutines are asleep - deadlock! " + s.blockedSummary()}
		s.cur = s.threads[0]
		s.threads[0].wake <- true
		return
	}
	k := 0
	if len(rs) > 1 {
		k = s.it.path.Choice(len(rs))
	}
	s.cur = rs[k]
	rs[k].wake <- true
}

func (s *Scheduler) blockedSummary() string {
	out := ""
	for _, t := range s.threads {
		if !t.done && t.blocked != nil {
			out += fmt.Sprintf("[g%d: %s] ", t.id, t.why)
		}
	}
	return out
}

// yield is a potential context switch at a visible operation.
func (s *Scheduler) yield(what string) {
	if len(s.threads) <= 1 || !s.multi() {
		return
	}
	me := s.cur
	rs := s.runnable()
	// candidates: me first (no preemption), then the others
	var cands []*Thread
	meRunnable := false
	for _, t := range rs {
		if t == me {
			meRunnable = true
		}
	}
	if meRunnable {
		cands = append(cands, me)
		if s.preemptions < s.MaxPreempt {
			for _, t := range rs {
				if t != me {
					cands = append(cands, t)
				}
			}
		}
	} else {
		cands = rs
	}
	if len(cands) == 0 {
		panic(fatalError{"all goroutines are asleep - deadlock! " + s.blockedSummary()})
	}
	k := 0
	if len(cands) > 1 {
		k = s.it.path.Choice(len(cands))
	}
	next := cands[k]
	if next == me {
		return
	}
	if meRunnable {
		s.preemptions++
	}
	s.noteSwitch(me, next, what)
	s.cur = next
	next.wake <- true
	s.park(me)
}

func (s *Scheduler) noteSwitch(from, to *Thread, what string) {
	where := ""
	if s.it.top != nil {
		where = s.it.top.fn.Name()
		for f := s.it.top; f != nil; f = f.caller {
			if f.fn.Pkg != nil && f.fn.Pkg.Pkg.Path() == s.it.P.ModulePath {
				where = f.fn.Name()
				break
			}
		}
	}
	if len(s.switches) < 64 {
		s.switches = append(s.switches, fmt.Sprintf("g%d@%s(%s)->g%d", from.id, what, where, to.id))
	}
}

func (s *Scheduler) park(me *Thread) {
	run := <-me.wake
	if !run {
		panic(threadKill{})
	}
	if me.id == 0 && s.failure != nil {
		f := s.failure
		s.failure = nil
		panic(f)
	}
}

// block parks the current thread until cond() holds (re-evaluated by the scheduler).
func (s *Scheduler) block(why string, cond func() bool) {
	if cond() {
		return
	}
	me := s.cur
	me.blocked = cond
	me.why = why
	defer func() { me.blocked = nil }()
	for !cond() {
		rs := s.runnable()
		if len(rs) == 0 {
			panic(fatalError{"all goroutines are asleep - deadlock! " + s.blockedSummary()})
		}
		k := 0
		if len(rs) > 1 {
			k = s.it.path.Choice(len(rs))
		}
		next := rs[k]
		if next == me {
			break
		}
		s.cur = next
		next.wake <- true
		s.park(me)
	}
}

// join waits until all other threads have finished (used by verifJoin).
func (s *Scheduler) joinAll() {
	me := s.cur
	s.block("join", func() bool {
		for _, t := range s.threads {
			if t != me && !t.done {
				return false
			}
		}
		return true
	})
	s.it.raceJoinAll()
	s.logEvent(SyncEvent{Kind: "joinall", Thread: s.cur.id})
}

// ---------- event log for the race query ----------

type SyncEvent struct {
	Kind   string // acq rel racq rrel atomic fork exit joinall rd wr
	Thread int
	Other  int
	Obj    interface{}
	Where  string
	Seq    int
}

func (s *Scheduler) logEvent(e SyncEvent) {
	if !s.record {
		return
	}
	e.Seq = len(s.events)
	s.events = append(s.events, e)
}

func (it *Interp) noteRead(addr *Value) {
	if it.race != nil && it.race.on && len(it.sched.threads) > 1 {
		it.noteCells(addr, false, 0)
	}
}
func (it *Interp) noteWrite(addr *Value) {
	if it.race != nil && it.race.on && len(it.sched.threads) > 1 {
		it.noteCells(addr, true, 0)
	}
}

// noteCells records an access to a cell and, for aggregates stored in it, to their field/element cells.
func (it *Interp) noteCells(addr *Value, write bool, depth int) {
	it.raceAccess(addr, write, false)
	if depth > 3 {
		return
	}
	switch v := (*addr).(type) {
	case Struct:
		for i := range v {
			it.noteCells(&v[i], write, depth+1)
		}
	case Array:
		if len(v) <= 64 {
			for i := range v {
				it.noteCells(&v[i], write, depth+1)
			}
		}
	}
}
