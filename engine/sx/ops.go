package sx

import (
	"fmt"
	"go/constant"
	"go/token"
	"go/types"
	"math"
	"strings"
	"unicode/utf8"

	"golang.org/x/tools/go/ssa"

	"gosx/smt"
)

func constantStringVal(c *ssa.Const) string { return constant.StringVal(c.Value) }

// ---------- symbolic helpers ----------

func (it *Interp) st() *smt.Store { return it.path.St }

// term converts an integer Value of width w to a term.
func (it *Interp) term(v Value, w uint8) *smt.Term {
	switch v := v.(type) {
	case *smt.Term:
		if v.W != w {
			panic(abort{st: StInternal, msg: fmt.Sprintf("term width %d, expected %d", v.W, w)})
		}
		return v
	case uint64:
		return it.st().Const(w, v)
	}
	panic(abort{st: StInternal, msg: fmt.Sprintf("term: unexpected %T", v)})
}

func (it *Interp) boolTerm(v Value) *smt.Term {
	switch v := v.(type) {
	case *smt.Term:
		return v
	case bool:
		return it.st().Bool(v)
	}
	panic(abort{st: StInternal, msg: fmt.Sprintf("boolTerm: unexpected %T", v)})
}

// simp returns a concrete value when the term is constant.
func simp(t *smt.Term, signed bool) Value {
	if t.IsConst() {
		if t.W == 0 {
			return t.C != 0
		}
		return norm(t.C, t.W, signed)
	}
	return t
}

// concInt turns an int-typed Value into a concrete int64, concretising symbolic values (forks).
func (it *Interp) concInt(v Value, what string) int64 {
	switch v := v.(type) {
	case uint64:
		return int64(v)
	case *smt.Term:
		c := it.path.Concretize(v, what)
		return int64(norm(c, v.W, true))
	case nil:
		return 0
	}
	panic(abort{st: StInternal, msg: fmt.Sprintf("concInt(%s): unexpected %T", what, v)})
}

// concUint for unsigned index types
func (it *Interp) concIdx(v Value, what string) int64 {
	return it.concInt(v, what)
}

// index checks 0 <= i < n, forking a panic path if a symbolic index can be out of range.
func (it *Interp) index(iv Value, n int) int {
	switch i := iv.(type) {
	case uint64:
		if int64(i) < 0 || int64(i) >= int64(n) {
			it.rtPanic(fmt.Sprintf("index out of range [%d] with length %d", int64(i), n))
		}
		return int(i)
	case *smt.Term:
		s := it.st()
		inb := s.Cmp(smt.OpUlt, i, s.Const(i.W, uint64(n)))
		if !it.path.Branch(inb) {
			it.rtPanic(fmt.Sprintf("index out of range [symbolic] with length %d", n))
		}
		return int(it.path.Concretize(i, "index"))
	}
	panic(abort{st: StInternal, msg: fmt.Sprintf("index: unexpected %T", iv)})
}

// ---------- unary ----------

func (it *Interp) unop(fr *Frame, instr *ssa.UnOp, x Value) Value {
	switch instr.Op {
	case token.ARROW:
		ch := x.(*Chan)
		if ch != nil && ch.closed {
			z := zero(instr.X.Type().Underlying().(*types.Chan).Elem())
			if instr.CommaOk {
				return Tuple{z, false}
			}
			return z
		}
		panic(abort{st: StUnsupported, msg: "blocking channel receive"})
	case token.MUL:
		addr := x.(*Value)
		if addr == nil {
			it.rtPanic("invalid memory address or nil pointer dereference")
		}
		it.noteRead(addr)
		v := load(deref(instr.X.Type()), addr)
		if _, ok := v.(sigbus); ok {
			panic(fatalError{"SIGBUS: access to mapped memory beyond end of file"})
		}
		return v
	case token.SUB:
		k, w, signed := basicInfo(instr.X.Type())
		switch k {
		case kInt:
			switch x := x.(type) {
			case uint64:
				return norm(-x, w, signed)
			case *smt.Term:
				return simp(it.st().Un(smt.OpNeg, x), signed)
			}
		case kFloat64:
			switch x := x.(type) {
			case float64:
				return -x
			case SymF64:
				return SymF64{U: x.U, Neg: !x.Neg}
			}
		case kFloat32:
			return -x.(float32)
		}
	case token.NOT:
		switch x := x.(type) {
		case bool:
			return !x
		case *smt.Term:
			return simp(it.st().Not(x), false)
		}
	case token.XOR:
		_, w, signed := basicInfo(instr.X.Type())
		switch x := x.(type) {
		case uint64:
			return norm(^x, w, signed)
		case *smt.Term:
			return simp(it.st().Un(smt.OpNot, x), signed)
		}
	}
	panic(abort{st: StUnsupported, msg: fmt.Sprintf("unop %s on %T", instr.Op, x)})
}

// ---------- binary ----------

func isSym(v Value) bool {
	switch v.(type) {
	case *smt.Term, *SymStr, SymF64:
		return true
	}
	return false
}

func (it *Interp) binop(op token.Token, t, ty types.Type, x, y Value) Value {
	k, w, signed := basicInfo(t)
	switch k {
	case kInt:
		if op == token.SHL || op == token.SHR {
			return it.shift(op, w, signed, ty, x, y)
		}
		xs, xok := x.(uint64)
		ys, yok := y.(uint64)
		if xok && yok {
			return intBinop(it, op, w, signed, xs, ys)
		}
		return it.symIntBinop(op, w, signed, x, y)
	case kBool:
		xb, xok := x.(bool)
		yb, yok := y.(bool)
		if xok && yok {
			switch op {
			case token.EQL:
				return xb == yb
			case token.NEQ:
				return xb != yb
			}
		} else {
			s := it.st()
			e := s.Eq(it.boolTerm(x), it.boolTerm(y))
			switch op {
			case token.EQL:
				return simp(e, false)
			case token.NEQ:
				return simp(s.Not(e), false)
			}
		}
	case kFloat64:
		xf, xok := x.(float64)
		yf, yok := y.(float64)
		if xok && yok {
			return floatBinop(op, xf, yf)
		}
		return it.symFloatCmp(op, x, y)
	case kFloat32:
		r := floatBinop(op, float64(x.(float32)), float64(y.(float32)))
		if f, ok := r.(float64); ok {
			return float32(f)
		}
		return r
	case kString:
		xs, xok := x.(string)
		ys, yok := y.(string)
		if xok && yok {
			switch op {
			case token.ADD:
				return xs + ys
			case token.EQL:
				return xs == ys
			case token.NEQ:
				return xs != ys
			case token.LSS:
				return xs < ys
			case token.LEQ:
				return xs <= ys
			case token.GTR:
				return xs > ys
			case token.GEQ:
				return xs >= ys
			}
		}
		return it.symStrBinop(op, x, y)
	}
	// comparable non-basic types
	switch op {
	case token.EQL:
		return it.equalsV(t, x, y)
	case token.NEQ:
		e := it.equalsV(t, x, y)
		switch e := e.(type) {
		case bool:
			return !e
		case *smt.Term:
			return simp(it.st().Not(e), false)
		}
	}
	panic(abort{st: StUnsupported, msg: fmt.Sprintf("binop %s on %s (%T, %T)", op, t, x, y)})
}

func intBinop(it *Interp, op token.Token, w uint8, signed bool, x, y uint64) Value {
	switch op {
	case token.ADD:
		return norm(x+y, w, signed)
	case token.SUB:
		return norm(x-y, w, signed)
	case token.MUL:
		return norm(x*y, w, signed)
	case token.QUO:
		if y == 0 {
			it.rtPanic("integer divide by zero")
		}
		if signed {
			if int64(y) == -1 {
				return norm(-x, w, true)
			}
			return norm(uint64(int64(x)/int64(y)), w, true)
		}
		return x / y
	case token.REM:
		if y == 0 {
			it.rtPanic("integer divide by zero")
		}
		if signed {
			if int64(y) == -1 {
				return uint64(0)
			}
			return norm(uint64(int64(x)%int64(y)), w, true)
		}
		return x % y
	case token.AND:
		return x & y
	case token.OR:
		return x | y
	case token.XOR:
		return norm(x^y, w, signed)
	case token.AND_NOT:
		return norm(x&^y, w, signed)
	case token.EQL:
		return x == y
	case token.NEQ:
		return x != y
	case token.LSS:
		if signed {
			return int64(x) < int64(y)
		}
		return x < y
	case token.LEQ:
		if signed {
			return int64(x) <= int64(y)
		}
		return x <= y
	case token.GTR:
		if signed {
			return int64(x) > int64(y)
		}
		return x > y
	case token.GEQ:
		if signed {
			return int64(x) >= int64(y)
		}
		return x >= y
	}
	panic(abort{st: StUnsupported, msg: "int binop " + op.String()})
}

func (it *Interp) symIntBinop(op token.Token, w uint8, signed bool, x, y Value) Value {
	s := it.st()
	a, b := it.term(canon(x, w), w), it.term(canon(y, w), w)
	var r *smt.Term
	switch op {
	case token.ADD:
		r = s.Bin(smt.OpAdd, a, b)
	case token.SUB:
		r = s.Bin(smt.OpSub, a, b)
	case token.MUL:
		r = s.Bin(smt.OpMul, a, b)
	case token.QUO, token.REM:
		if it.path.Branch(s.Eq(b, s.Const(w, 0))) {
			it.rtPanic("integer divide by zero")
		}
		switch {
		case op == token.QUO && signed:
			r = s.Bin(smt.OpSDiv, a, b)
		case op == token.QUO:
			r = s.Bin(smt.OpUDiv, a, b)
		case signed:
			r = s.Bin(smt.OpSRem, a, b)
		default:
			r = s.Bin(smt.OpURem, a, b)
		}
	case token.AND:
		r = s.Bin(smt.OpAnd, a, b)
	case token.OR:
		r = s.Bin(smt.OpOr, a, b)
	case token.XOR:
		r = s.Bin(smt.OpXor, a, b)
	case token.AND_NOT:
		r = s.Bin(smt.OpAnd, a, s.Un(smt.OpNot, b))
	case token.EQL:
		if w == 32 && it.crcForgery(x, y) {
			return false
		}
		return simp(s.Eq(a, b), false)
	case token.NEQ:
		if w == 32 && it.crcForgery(x, y) {
			return true
		}
		return simp(s.Not(s.Eq(a, b)), false)
	case token.LSS:
		return simp(s.Cmp(cmpOp(true, signed), a, b), false)
	case token.LEQ:
		return simp(s.Cmp(cmpOp(false, signed), a, b), false)
	case token.GTR:
		return simp(s.Cmp(cmpOp(true, signed), b, a), false)
	case token.GEQ:
		return simp(s.Cmp(cmpOp(false, signed), b, a), false)
	default:
		panic(abort{st: StUnsupported, msg: "symbolic int binop " + op.String()})
	}
	return simp(r, signed)
}

// canon masks a canonical concrete value down to width w for use as a constant term.
func canon(v Value, w uint8) Value {
	if c, ok := v.(uint64); ok {
		return norm(c, w, false)
	}
	return v
}

func cmpOp(strict, signed bool) smt.Op {
	switch {
	case strict && signed:
		return smt.OpSlt
	case strict:
		return smt.OpUlt
	case signed:
		return smt.OpSle
	}
	return smt.OpUle
}

func (it *Interp) shift(op token.Token, w uint8, signed bool, ty types.Type, x, y Value) Value {
	_, yw, ysigned := basicInfo(ty)
	xc, xok := x.(uint64)
	yc, yok := y.(uint64)
	if yok && ysigned && int64(yc) < 0 {
		it.rtPanic("negative shift amount")
	}
	if xok && yok {
		if op == token.SHL {
			if yc >= uint64(w) {
				return uint64(0)
			}
			return norm(xc<<yc, w, signed)
		}
		if signed {
			if yc >= 64 {
				yc = 63
			}
			return norm(uint64(int64(xc)>>yc), w, true)
		}
		if yc >= uint64(w) {
			return uint64(0)
		}
		return norm(xc, w, false) >> yc
	}
	s := it.st()
	a := it.term(canon(x, w), w)
	var cnt *smt.Term
	if yok {
		if yc >= uint64(w) {
			if op == token.SHR && signed {
				cnt = s.Const(w, uint64(w-1))
			} else {
				return uint64(0)
			}
		} else {
			cnt = s.Const(w, yc)
		}
	} else {
		yt := y.(*smt.Term)
		if ysigned {
			if it.path.Branch(s.Cmp(smt.OpSlt, yt, s.Const(yw, 0))) {
				it.rtPanic("negative shift amount")
			}
		}
		// bring count to width w with saturation
		switch {
		case yw == w:
			cnt = yt
		case yw < w:
			cnt = s.ZExt(yt, w)
		default:
			big := s.Cmp(smt.OpUle, s.Const(yw, uint64(w)), yt)
			cnt = s.Ite(big, s.Const(w, uint64(w)), s.Extract(yt, 0, w))
		}
	}
	switch {
	case op == token.SHL:
		return simp(s.Bin(smt.OpShl, a, cnt), signed)
	case signed:
		return simp(s.Bin(smt.OpAShr, a, cnt), signed)
	}
	return simp(s.Bin(smt.OpLShr, a, cnt), signed)
}

func floatBinop(op token.Token, x, y float64) Value {
	switch op {
	case token.ADD:
		return x + y
	case token.SUB:
		return x - y
	case token.MUL:
		return x * y
	case token.QUO:
		return x / y
	case token.EQL:
		return x == y
	case token.NEQ:
		return x != y
	case token.LSS:
		return x < y
	case token.LEQ:
		return x <= y
	case token.GTR:
		return x > y
	case token.GEQ:
		return x >= y
	}
	panic(abort{st: StUnsupported, msg: "float binop " + op.String()})
}

// symFloatCmp: comparisons between exact float64(uint64) values.
func (it *Interp) symFloatCmp(op token.Token, x, y Value) Value {
	s := it.st()
	toU := func(v Value) (*smt.Term, bool) {
		switch v := v.(type) {
		case SymF64:
			if v.Neg {
				return nil, false
			}
			return v.U, true
		case float64:
			if v < 0 || v != math.Trunc(v) || v >= 1<<63 {
				return nil, false
			}
			u := uint64(v)
			if float64(u) != v {
				return nil, false
			}
			return s.Const(64, u), true
		}
		return nil, false
	}
	a, ok1 := toU(x)
	b, ok2 := toU(y)
	if !ok1 || !ok2 {
		panic(abort{st: StUnsupported, msg: "symbolic float operation"})
	}
	switch op {
	case token.EQL:
		return simp(s.Eq(a, b), false)
	case token.NEQ:
		return simp(s.Not(s.Eq(a, b)), false)
	case token.LSS:
		return simp(s.Cmp(smt.OpUlt, a, b), false)
	case token.LEQ:
		return simp(s.Cmp(smt.OpUle, a, b), false)
	case token.GTR:
		return simp(s.Cmp(smt.OpUlt, b, a), false)
	case token.GEQ:
		return simp(s.Cmp(smt.OpUle, b, a), false)
	}
	panic(abort{st: StUnsupported, msg: "symbolic float binop " + op.String()})
}

// ---------- strings ----------

func strBytes(v Value) []Value {
	switch v := v.(type) {
	case string:
		b := make([]Value, len(v))
		for i := 0; i < len(v); i++ {
			b[i] = uint64(v[i])
		}
		return b
	case *SymStr:
		return v.B
	}
	panic(abort{st: StInternal, msg: fmt.Sprintf("strBytes: %T", v)})
}

func mkStr(b []Value) Value {
	conc := true
	for _, x := range b {
		if _, ok := x.(uint64); !ok {
			conc = false
			break
		}
	}
	if conc {
		bs := make([]byte, len(b))
		for i, x := range b {
			bs[i] = byte(x.(uint64))
		}
		return string(bs)
	}
	return &SymStr{B: append([]Value(nil), b...)}
}

func strLen(v Value) int {
	switch v := v.(type) {
	case string:
		return len(v)
	case *SymStr:
		return len(v.B)
	}
	panic(abort{st: StInternal, msg: fmt.Sprintf("strLen: %T", v)})
}

// bytesEqTerm: Bool term for equality of two byte sequences of equal length.
func (it *Interp) bytesEqTerm(a, b []Value) *smt.Term {
	s := it.st()
	if len(a) != len(b) {
		return s.False
	}
	var cs []*smt.Term
	for i := range a {
		ca, oka := a[i].(uint64)
		cb, okb := b[i].(uint64)
		if oka && okb {
			if ca != cb {
				return s.False
			}
			continue
		}
		cs = append(cs, s.Eq(it.term(a[i], 8), it.term(b[i], 8)))
	}
	return s.And(cs...)
}

// bytesCmpTerms returns (lt, eq) Bool terms for lexicographic comparison.
func (it *Interp) bytesCmpTerms(a, b []Value) (lt, eq *smt.Term) {
	s := it.st()
	n := len(a)
	if len(b) < n {
		n = len(b)
	}
	// from the end: lt_i = a_i<b_i || (a_i==b_i && lt_{i+1})
	lt = s.Bool(len(a) < len(b))
	eq = s.Bool(len(a) == len(b))
	for i := n - 1; i >= 0; i-- {
		ai, bi := it.term(a[i], 8), it.term(b[i], 8)
		e := s.Eq(ai, bi)
		l := s.Cmp(smt.OpUlt, ai, bi)
		lt = s.Or(l, s.And(e, lt))
		eq = s.And(e, eq)
	}
	return
}

func (it *Interp) symStrBinop(op token.Token, x, y Value) Value {
	a, b := strBytes(x), strBytes(y)
	s := it.st()
	switch op {
	case token.ADD:
		return mkStr(append(append([]Value(nil), a...), b...))
	case token.EQL:
		return simp(it.bytesEqTerm(a, b), false)
	case token.NEQ:
		return simp(s.Not(it.bytesEqTerm(a, b)), false)
	}
	lt, eq := it.bytesCmpTerms(a, b)
	switch op {
	case token.LSS:
		return simp(lt, false)
	case token.LEQ:
		return simp(s.Or(lt, eq), false)
	case token.GTR:
		return simp(s.Not(s.Or(lt, eq)), false)
	case token.GEQ:
		return simp(s.Not(lt), false)
	}
	panic(abort{st: StUnsupported, msg: "string binop " + op.String()})
}

// ---------- equality ----------

// equalsV returns bool or Bool term.
func (it *Interp) equalsV(t types.Type, x, y Value) Value {
	e := it.eqTerm(t, x, y)
	return simp(e, false)
}

func (it *Interp) eqTerm(t types.Type, x, y Value) *smt.Term {
	s := it.st()
	switch x := x.(type) {
	case bool:
		if yb, ok := y.(bool); ok {
			return s.Bool(x == yb)
		}
		return s.Eq(it.boolTerm(x), it.boolTerm(y))
	case uint64:
		if yc, ok := y.(uint64); ok {
			return s.Bool(x == yc)
		}
		yt := y.(*smt.Term)
		return s.Eq(s.Const(yt.W, x), yt)
	case *smt.Term:
		if x.W == 0 {
			return s.Eq(x, it.boolTerm(y))
		}
		return s.Eq(x, it.term(canon(y, x.W), x.W))
	case float64:
		if yf, ok := y.(float64); ok {
			return s.Bool(x == yf)
		}
		return it.boolTerm(it.symFloatCmp(token.EQL, x, y))
	case SymF64:
		return it.boolTerm(it.symFloatCmp(token.EQL, x, y))
	case float32:
		return s.Bool(x == y.(float32))
	case complex128:
		return s.Bool(x == y.(complex128))
	case string:
		if ys, ok := y.(string); ok {
			return s.Bool(x == ys)
		}
		return it.bytesEqTerm(strBytes(x), strBytes(y))
	case *SymStr:
		return it.bytesEqTerm(x.B, strBytes(y))
	case *Value:
		return s.Bool(x == y.(*Value))
	case *Chan:
		return s.Bool(x == y.(*Chan))
	case *Map:
		// only comparison with nil is legal
		ym, _ := y.(*Map)
		return s.Bool(x == ym)
	case []Value:
		// only nil comparison legal
		yv, _ := y.([]Value)
		return s.Bool(x == nil && yv == nil)
	case *HostObj:
		return s.Bool(x == y.(*HostObj))
	case Struct:
		ys := y.(Struct)
		st := t.Underlying().(*types.Struct)
		var cs []*smt.Term
		for i := range x {
			if st.Field(i).Name() == "_" {
				continue
			}
			cs = append(cs, it.eqTerm(st.Field(i).Type(), x[i], ys[i]))
		}
		return s.And(cs...)
	case Array:
		ya := y.(Array)
		et := t.Underlying().(*types.Array).Elem()
		var cs []*smt.Term
		for i := range x {
			cs = append(cs, it.eqTerm(et, x[i], ya[i]))
		}
		return s.And(cs...)
	case Iface:
		yi := y.(Iface)
		if x.T == nil || yi.T == nil {
			return s.Bool(x.T == nil && yi.T == nil)
		}
		if !types.Identical(x.T, yi.T) {
			return s.False
		}
		if !types.Comparable(x.T) {
			panic(targetPanic{v: Iface{T: it.P.runtimeErr, V: "runtime error: comparing uncomparable type " + x.T.String()}})
		}
		return it.eqTerm(x.T, x.V, yi.V)
	case *ssa.Function:
		yf, _ := y.(*ssa.Function)
		return s.Bool(x == nil && yf == nil && isNilFunc(y))
	case *Closure:
		return s.Bool(false)
	case rtype:
		return s.Bool(types.Identical(x.t, y.(rtype).t))
	}
	panic(abort{st: StUnsupported, msg: fmt.Sprintf("equality on %T (%s)", x, t)})
}

func isNilFunc(v Value) bool {
	f, ok := v.(*ssa.Function)
	return ok && f == nil
}

// ---------- conversions ----------

func (it *Interp) conv(tDst, tSrc types.Type, x Value) Value {
	ud, us := tDst.Underlying(), tSrc.Underlying()
	// pointer / unsafe.Pointer
	switch ud := ud.(type) {
	case *types.Pointer:
		switch us.(type) {
		case *types.Pointer:
			return x
		case *types.Basic: // unsafe.Pointer -> *T
			p, _ := x.(*Value)
			if p == nil {
				return (*Value)(nil)
			}
			return it.unsafeCast(p, ud.Elem())
		}
	case *types.Slice:
		// string -> []byte / []rune
		if b, ok := us.(*types.Basic); ok && b.Info()&types.IsString != 0 {
			if eb, ok := ud.Elem().Underlying().(*types.Basic); ok && eb.Kind() == types.Uint8 {
				bs := strBytes(x)
				out := make([]Value, len(bs))
				copy(out, bs)
				return out
			}
			if s, ok := x.(string); ok { // []rune
				var out []Value
				for _, r := range s {
					out = append(out, norm(uint64(r), 32, true))
				}
				return out
			}
		}
		if _, ok := us.(*types.Slice); ok {
			return x
		}
	case *types.Basic:
		dk, dw, dsigned := basicInfo(ud)
		if dk == kUnsafePtr {
			// *T -> unsafe.Pointer or uintptr -> unsafe.Pointer
			if p, ok := x.(*Value); ok {
				return p
			}
			panic(abort{st: StUnsupported, msg: "uintptr -> unsafe.Pointer"})
		}
		if dk == kString {
			switch us := us.(type) {
			case *types.Slice:
				sl := x.([]Value)
				if eb, ok := us.Elem().Underlying().(*types.Basic); ok && eb.Kind() == types.Uint8 {
					return mkStr(sl)
				}
				var sb strings.Builder
				for _, r := range sl {
					sb.WriteRune(rune(int32(r.(uint64))))
				}
				return sb.String()
			case *types.Basic:
				if us.Info()&types.IsString != 0 {
					return x
				}
				if us.Info()&types.IsInteger != 0 {
					c, ok := x.(uint64)
					if !ok {
						panic(abort{st: StUnsupported, msg: "string(symbolic int)"})
					}
					if int64(c) < 0 || int64(c) > utf8.MaxRune {
						return string(utf8.RuneError)
					}
					return string(rune(c))
				}
			}
		}
		sk, sw, ssigned := basicInfo(us)
		switch {
		case dk == kInt && sk == kInt:
			switch x := x.(type) {
			case uint64:
				return norm(x, dw, dsigned)
			case *smt.Term:
				s := it.st()
				switch {
				case dw == sw:
					return x
				case dw < sw:
					return simp(s.Extract(x, 0, dw), dsigned)
				case ssigned:
					return simp(s.SExt(x, dw), dsigned)
				default:
					return simp(s.ZExt(x, dw), dsigned)
				}
			}
		case dk == kInt && sk == kUnsafePtr:
			panic(abort{st: StUnsupported, msg: "unsafe.Pointer -> uintptr"})
		case dk == kFloat64 && sk == kInt:
			switch x := x.(type) {
			case uint64:
				if ssigned {
					return float64(int64(x))
				}
				return float64(x)
			case *smt.Term:
				// exact iff low bits beyond the 53-bit mantissa are structurally zero
				if !ssigned && sw == 64 && lowBitsZero(it.st(), x, 11) {
					return SymF64{U: x}
				}
				if !ssigned && sw < 53 {
					return SymF64{U: it.st().ZExt(x, 64)}
				}
				panic(abort{st: StUnsupported, msg: "float64(symbolic int) not provably exact"})
			}
		case dk == kFloat32 && sk == kInt:
			c := x.(uint64)
			if ssigned {
				return float32(int64(c))
			}
			return float32(c)
		case dk == kInt && (sk == kFloat64 || sk == kFloat32):
			var f float64
			switch x := x.(type) {
			case float64:
				f = x
			case float32:
				f = float64(x)
			default:
				panic(abort{st: StUnsupported, msg: "int(symbolic float)"})
			}
			if dsigned {
				return norm(uint64(int64(f)), dw, true)
			}
			return norm(uint64(f), dw, false)
		case dk == kFloat64 && sk == kFloat32:
			return float64(x.(float32))
		case dk == kFloat32 && sk == kFloat64:
			return float32(x.(float64))
		case dk == sk:
			return x
		}
	}
	if types.Identical(ud, us) {
		return x
	}
	panic(abort{st: StUnsupported, msg: fmt.Sprintf("conversion %s -> %s (%T)", tSrc, tDst, x)})
}

func lowBitsZero(s *smt.Store, x *smt.Term, n uint8) bool {
	e := s.Extract(x, 0, n)
	return e.IsConst() && e.C == 0
}

// unsafeCast reinterprets pointer p as *T. Supported: p points to the first field of a struct of type T
// (or the reverse), which is all the interpreted libraries need.
func (it *Interp) unsafeCast(p *Value, T types.Type) Value {
	if par, ok := it.parentOf[p]; ok {
		if s, ok := (*par).(Struct); ok {
			if ts, ok := T.Underlying().(*types.Struct); ok && ts.NumFields() == len(s) {
				return par
			}
		}
	}
	// same cell (e.g. *T -> unsafe.Pointer -> *T)
	return p
}

func (it *Interp) sliceToArrayPointer(tDst types.Type, x Value) Value {
	sl := x.([]Value)
	n := int(deref(tDst).Underlying().(*types.Array).Len())
	if n > len(sl) {
		it.rtPanic(fmt.Sprintf("cannot convert slice with length %d to array or pointer to array with length %d", len(sl), n))
	}
	if sl == nil {
		return (*Value)(nil)
	}
	var v Value = Array(sl[:n:n])
	return &v
}

// ---------- slicing ----------

func (it *Interp) slice(tx types.Type, x, lo, hi, max Value) Value {
	var Len, Cap int
	switch x := x.(type) {
	case string:
		Len = len(x)
	case *SymStr:
		Len = len(x.B)
	case []Value:
		Len, Cap = len(x), cap(x)
	case *Value:
		if x == nil {
			it.rtPanic("invalid memory address or nil pointer dereference")
		}
		a := (*x).(Array)
		Len, Cap = len(a), cap(a)
	}
	_, isStr := x.(string)
	_, isSym := x.(*SymStr)
	if isStr || isSym {
		Cap = Len
	}
	l, h, m := 0, Len, Cap
	if _, ok := x.([]Value); ok {
		h = Len
	}
	// bounds: 0 <= l <= h <= m <= cap. Evaluate symbolic ones with panic forks.
	s := it.st()
	bound := func(v Value, def int, upper int, what string) int {
		switch v := v.(type) {
		case nil:
			return def
		case uint64:
			if int64(v) < 0 || int64(v) > int64(upper) {
				it.rtPanic(fmt.Sprintf("slice bounds out of range [%s %d] with capacity %d", what, int64(v), upper))
			}
			return int(v)
		case *smt.Term:
			ok := s.Cmp(smt.OpUle, v, s.Const(v.W, uint64(upper)))
			if !it.path.Branch(ok) {
				it.rtPanic(fmt.Sprintf("slice bounds out of range [%s symbolic] with capacity %d", what, upper))
			}
			return int(it.path.Concretize(v, "slice bound"))
		}
		panic(abort{st: StInternal, msg: fmt.Sprintf("slice bound %T", v)})
	}
	m = bound(max, Cap, Cap, "::max")
	if max == nil {
		// h <= cap for slices/arrays, <= len for strings
		h = bound(hi, h, Cap, ":hi")
	} else {
		h = bound(hi, h, m, ":hi")
	}
	l = bound(lo, 0, h, "lo:")
	if l > h {
		it.rtPanic(fmt.Sprintf("slice bounds out of range [%d:%d]", l, h))
	}
	switch x := x.(type) {
	case string:
		return x[l:h]
	case *SymStr:
		return mkStr(x.B[l:h])
	case []Value:
		if x == nil && h == 0 {
			return []Value(nil)
		}
		return x[l:h:m]
	case *Value:
		return []Value((*x).(Array))[l:h:m]
	}
	panic(abort{st: StInternal, msg: fmt.Sprintf("slice of %T", x)})
}

// ---------- maps ----------

// mapFind returns the entry whose key equals k, branching on symbolic equality.
func (it *Interp) mapFind(m *Map, k Value) *mapEntry {
	if m == nil {
		return nil
	}
	if it.raceActive() {
		it.raceAccess(m, false, false)
	}
	if ck, ok := concreteKey(k); ok {
		if e, ok := m.idx[ck]; ok {
			return e
		}
		// may still equal a symbolic key
		for _, e := range m.entries {
			if e.deleted {
				continue
			}
			if _, conc := concreteKey(e.k); conc {
				continue
			}
			if it.path.Branch(it.eqTerm(m.keyT, e.k, k)) {
				return e
			}
		}
		return nil
	}
	for _, e := range m.entries {
		if e.deleted {
			continue
		}
		if it.path.Branch(it.eqTerm(m.keyT, e.k, k)) {
			return e
		}
	}
	return nil
}

func (it *Interp) mapInsert(m *Map, k, v Value) {
	if e := it.mapFind(m, k); e != nil {
		if it.raceActive() {
			it.raceAccess(m, true, false)
		}
		e.v = v
		return
	}
	if it.raceActive() {
		it.raceAccess(m, true, false)
	}
	e := &mapEntry{k: k, v: v}
	m.entries = append(m.entries, e)
	if ck, ok := concreteKey(k); ok {
		m.idx[ck] = e
	}
	m.n++
}

func (it *Interp) mapDelete(m *Map, k Value) {
	if e := it.mapFind(m, k); e != nil {
		if it.raceActive() {
			it.raceAccess(m, true, false)
		}
		e.deleted = true
		if ck, ok := concreteKey(e.k); ok {
			delete(m.idx, ck)
		}
		m.n--
		// compact occasionally
		if len(m.entries) > 16 && m.n*2 < len(m.entries) {
			live := m.entries[:0:0]
			for _, e := range m.entries {
				if !e.deleted {
					live = append(live, e)
				}
			}
			m.entries = live
		}
	}
}

func (it *Interp) lookup(instr *ssa.Lookup, x, idx Value) Value {
	switch x := x.(type) {
	case *Map:
		var v Value
		ok := false
		if e := it.mapFind(x, idx); e != nil {
			v, ok = copyVal(e.v), true
		} else {
			v = zero(instr.X.Type().Underlying().(*types.Map).Elem())
		}
		if instr.CommaOk {
			return Tuple{v, ok}
		}
		return v
	case string:
		i := it.index(idx, len(x))
		return uint64(x[i])
	case *SymStr:
		i := it.index(idx, len(x.B))
		return x.B[i]
	}
	panic(abort{st: StInternal, msg: fmt.Sprintf("lookup on %T", x)})
}

type mapIter struct {
	m   *Map
	pos int
	ord []*mapEntry
}

func (mi *mapIter) next(it *Interp) Tuple {
	for mi.pos < len(mi.ord) {
		e := mi.ord[mi.pos]
		mi.pos++
		if !e.deleted {
			return Tuple{true, e.k, copyVal(e.v)}
		}
	}
	return Tuple{false, nil, nil}
}

type strIter struct {
	s string
	i int
}

func (si *strIter) next(it *Interp) Tuple {
	if si.i >= len(si.s) {
		return Tuple{false, nil, nil}
	}
	r, n := utf8.DecodeRuneInString(si.s[si.i:])
	t := Tuple{true, uint64(si.i), norm(uint64(r), 32, true)}
	si.i += n
	return t
}

func (it *Interp) rangeIter(x Value, t types.Type) rangeIter {
	switch x := x.(type) {
	case *Map:
		if x == nil {
			return &mapIter{}
		}
		if it.raceActive() {
			it.raceAccess(x, false, false)
		}
		ord := append([]*mapEntry(nil), x.entries...)
		if it.permuteMaps && len(liveEntries(ord)) > 1 {
			ord = it.permute(liveEntries(ord))
		}
		return &mapIter{m: x, ord: ord}
	case string:
		return &strIter{s: x}
	}
	panic(abort{st: StUnsupported, msg: fmt.Sprintf("range over %T", x)})
}

func liveEntries(es []*mapEntry) []*mapEntry {
	var out []*mapEntry
	for _, e := range es {
		if !e.deleted {
			out = append(out, e)
		}
	}
	return out
}

// permute: iteration order of a map is a choice point (all permutations explored).
func (it *Interp) permute(es []*mapEntry) []*mapEntry {
	out := make([]*mapEntry, 0, len(es))
	rest := append([]*mapEntry(nil), es...)
	for len(rest) > 1 {
		k := it.path.Choice(len(rest))
		out = append(out, rest[k])
		rest = append(rest[:k], rest[k+1:]...)
	}
	return append(out, rest...)
}

// ---------- type assertions ----------

func (it *Interp) typeAssert(instr *ssa.TypeAssert, itf Iface) Value {
	var v Value
	err := ""
	if itf.T == nil {
		err = fmt.Sprintf("interface conversion: interface is nil, not %s", instr.AssertedType)
	} else if idst, ok := instr.AssertedType.Underlying().(*types.Interface); ok {
		v = itf
		if meth, _ := types.MissingMethod(itf.T, idst, true); meth != nil {
			err = fmt.Sprintf("interface conversion: %v is not %v: missing method %s", itf.T, idst, meth.Name())
		}
	} else if types.Identical(itf.T, instr.AssertedType) {
		v = copyVal(itf.V)
	} else {
		err = fmt.Sprintf("interface conversion: interface is %s, not %s", itf.T, instr.AssertedType)
	}
	if err != "" {
		if !instr.CommaOk {
			panic(targetPanic{v: Iface{T: it.P.runtimeErr, V: err}})
		}
		return Tuple{zero(instr.AssertedType), false}
	}
	if instr.CommaOk {
		return Tuple{v, true}
	}
	return v
}

// ---------- builtins ----------

func (it *Interp) callBuiltin(caller *Frame, callpos token.Pos, fn *ssa.Builtin, args []Value) Value {
	switch fn.Name() {
	case "append":
		if len(args) == 1 {
			return args[0]
		}
		var src []Value
		switch a1 := args[1].(type) {
		case string, *SymStr:
			src = strBytes(a1)
		case []Value:
			src = a1
		}
		dst, _ := args[0].([]Value)
		if len(src) == 0 {
			return dst
		}
		elemT := fn.Type().(*types.Signature).Params().At(0).Type().Underlying().(*types.Slice).Elem()
		return it.appendValues(dst, src, elemT)

	case "copy":
		var src []Value
		switch a1 := args[1].(type) {
		case string, *SymStr:
			src = strBytes(a1)
		case []Value:
			src = a1
		}
		dst, _ := args[0].([]Value)
		n := len(src)
		if len(dst) < n {
			n = len(dst)
		}
		if n > 0 {
			it.noteWrite(&dst[0])
			it.noteRead(&src[0])
			if _, ok := src[0].(Struct); ok {
				tmp := make([]Value, n)
				for i := 0; i < n; i++ {
					tmp[i] = copyVal(src[i])
				}
				copy(dst, tmp)
			} else {
				it.checkBus(dst[:n])
				it.checkBus(src[:n])
				copy(dst, src[:n])
			}
		}
		return uint64(n)

	case "close":
		ch := args[0].(*Chan)
		if ch == nil {
			it.rtPanic("close of nil channel")
		}
		if ch.closed {
			panic(targetPanic{v: Iface{T: it.P.runtimeErr, V: "close of closed channel"}})
		}
		ch.closed = true
		return nil

	case "delete":
		m, _ := args[0].(*Map)
		if m != nil {
			it.mapDelete(m, args[1])
		}
		return nil

	case "clear":
		switch a := args[0].(type) {
		case *Map:
			if a != nil {
				a.entries = nil
				a.idx = map[interface{}]*mapEntry{}
				a.n = 0
			}
		case []Value:
			if len(a) > 0 {
				elemT := fn.Type().(*types.Signature).Params().At(0).Type().Underlying().(*types.Slice).Elem()
				for i := range a {
					a[i] = zero(elemT)
				}
			}
		}
		return nil

	case "print", "println":
		return nil

	case "len":
		switch x := args[0].(type) {
		case string:
			return uint64(len(x))
		case *SymStr:
			return uint64(len(x.B))
		case Array:
			return uint64(len(x))
		case *Value:
			if x == nil {
				// len(*[N]T)(nil) is N; need type
				t := fn.Type().(*types.Signature).Params().At(0).Type()
				return uint64(deref(t).Underlying().(*types.Array).Len())
			}
			return uint64(len((*x).(Array)))
		case []Value:
			return uint64(len(x))
		case *Map:
			if x != nil && it.raceActive() {
				it.raceAccess(x, false, false)
			}
			return uint64(x.Len())
		case *Chan:
			return uint64(0)
		}
		panic(abort{st: StInternal, msg: fmt.Sprintf("len of %T", args[0])})

	case "cap":
		switch x := args[0].(type) {
		case Array:
			return uint64(cap(x))
		case *Value:
			return uint64(cap((*x).(Array)))
		case []Value:
			return uint64(cap(x))
		case *Chan:
			return uint64(0)
		}
		panic(abort{st: StInternal, msg: fmt.Sprintf("cap of %T", args[0])})

	case "min", "max":
		t := fn.Type().(*types.Signature).Params().At(0).Type()
		r := args[0]
		for _, a := range args[1:] {
			var c Value
			if fn.Name() == "min" {
				c = it.binop(token.LSS, t, t, a, r)
			} else {
				c = it.binop(token.GTR, t, t, a, r)
			}
			switch c := c.(type) {
			case bool:
				if c {
					r = a
				}
			case *smt.Term:
				k, w, signed := basicInfo(t)
				if k != kInt {
					panic(abort{st: StUnsupported, msg: "symbolic min/max on non-int"})
				}
				r = simp(it.st().Ite(c, it.term(canon(a, w), w), it.term(canon(r, w), w)), signed)
			}
		}
		return r

	case "panic":
		panic(targetPanic{v: args[0], stack: caller.stack()})

	case "recover":
		return doRecover(caller)

	case "ssa:wrapnilchk":
		recv := args[0]
		if p, ok := recv.(*Value); ok && p == nil {
			it.rtPanic(fmt.Sprintf("value method %s.%s called using nil pointer", toString(args[1]), toString(args[2])))
		}
		return recv

	case "ssa:deferstack":
		return &caller.defers
	}
	panic(abort{st: StUnsupported, msg: "builtin " + fn.Name()})
}

// appendValues implements append with the gc runtime's growth policy (matters for aliasing).
func (it *Interp) appendValues(dst, src []Value, elemT types.Type) []Value {
	need := len(dst) + len(src)
	scalar := isScalarType(elemT)
	if need <= cap(dst) {
		out := dst[:need]
		it.noteWrite(&out[len(dst)])
		if scalar {
			it.checkBus(out[len(dst):])
			copy(out[len(dst):], src)
		} else {
			for i, v := range src {
				out[len(dst)+i] = copyVal(v)
			}
		}
		return out
	}
	newcap := growCap(cap(dst), need, int(it.P.Sizes.Sizeof(elemT)))
	out := make([]Value, need, newcap)
	copy(out, dst)
	if scalar {
		copy(out[len(dst):], src)
	} else {
		for i, v := range src {
			out[len(dst)+i] = copyVal(v)
		}
	}
	z := zero(elemT)
	for i := need; i < newcap; i++ {
		if scalar {
			out[:newcap][i] = z
		} else {
			out[:newcap][i] = zero(elemT)
		}
	}
	return out
}

// growCap mirrors runtime.growslice + roundupsize for go1.2x (64-bit).
func growCap(oldCap, newLen, elemSize int) int {
	newcap := oldCap
	doublecap := newcap + newcap
	if newLen > doublecap {
		newcap = newLen
	} else {
		const threshold = 256
		if oldCap < threshold {
			newcap = doublecap
		} else {
			for 0 < newcap && newcap < newLen {
				newcap += (newcap + 3*threshold) >> 2
			}
			if newcap <= 0 {
				newcap = newLen
			}
		}
	}
	if elemSize <= 0 {
		return newcap
	}
	mem := roundupsize(uintptr(newcap) * uintptr(elemSize))
	return int(mem / uintptr(elemSize))
}

var sizeClasses = [...]uint16{0, 8, 16, 24, 32, 48, 64, 80, 96, 112, 128, 144, 160, 176, 192, 208, 224, 240, 256, 288, 320, 352, 384, 416, 448, 480, 512, 576, 640, 704, 768, 896, 1024, 1152, 1280, 1408, 1536, 1792, 2048, 2304, 2688, 3072, 3200, 3456, 4096, 4864, 5376, 6144, 6528, 6784, 6912, 8192, 9472, 9728, 10240, 10880, 12288, 13568, 14336, 16384, 18432, 19072, 20480, 21760, 24576, 27264, 28672, 32768}

func roundupsize(size uintptr) uintptr {
	if size <= 32768 {
		for _, c := range sizeClasses {
			if uintptr(c) >= size {
				return uintptr(c)
			}
		}
	}
	const pageSize = 8192
	return (size + pageSize - 1) &^ (pageSize - 1)
}
