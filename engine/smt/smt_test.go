package smt

import "testing"

func TestBasic(t *testing.T) {
	for _, kind := range []string{"z3", "z3-new", "cvc5"} {
		s, err := NewSolver(kind, 10000)
		if err != nil {
			t.Fatal(err)
		}
		st := NewStore()
		s.BeginPath()
		x := st.Var("x", 8)
		y := st.Var("y", 8)
		s.Assert(st.Cmp(OpUlt, x, st.Const(8, 10)))
		r, m := s.Check(st.Eq(st.Bin(OpAdd, x, y), st.Const(8, 3)), st.Vars(), true)
		if r != Sat {
			t.Fatalf("%s: want sat got %v %s", kind, r, s.LastErr)
		}
		if (m["x"]+m["y"])&0xff != 3 || m["x"] >= 10 {
			t.Fatalf("%s: bad model %v", kind, m)
		}
		r, _ = s.Check(st.Cmp(OpUlt, st.Const(8, 20), x), nil, false)
		if r != Unsat {
			t.Fatalf("%s: want unsat got %v", kind, r)
		}
		// lanes: LittleEndian roundtrip
		v := st.Var("v", 32)
		b0 := st.Extract(v, 0, 8)
		b1 := st.Extract(st.Bin(OpLShr, v, st.Const(32, 8)), 0, 8)
		b2 := st.Extract(st.Bin(OpLShr, v, st.Const(32, 16)), 0, 8)
		b3 := st.Extract(st.Bin(OpLShr, v, st.Const(32, 24)), 0, 8)
		re := st.Bin(OpOr, st.Bin(OpOr, st.Bin(OpOr, st.ZExt(b0, 32), st.Bin(OpShl, st.ZExt(b1, 32), st.Const(32, 8))),
			st.Bin(OpShl, st.ZExt(b2, 32), st.Const(32, 16))), st.Bin(OpShl, st.ZExt(b3, 32), st.Const(32, 24)))
		if re != v {
			t.Fatalf("lane roundtrip not simplified: %s", re)
		}
		s.EndPath()
		s.BeginPath()
		r, _ = s.Check(st.Eq(x, st.Const(8, 200)), nil, false)
		if r != Sat {
			t.Fatalf("%s: after pop want sat got %v %s", kind, r, s.LastErr)
		}
		s.EndPath()
		s.Close()
	}
}
