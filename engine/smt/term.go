// Package smt: hash-consed bit-vector / Bool terms with local simplification,
// a Go-side evaluator, and SMT-LIB2 printing.
package smt

import (
	"fmt"
	"math/bits"
	"strings"
)

type Op uint8

const (
	OpConst Op = iota // BV const (C) or Bool const (W==0, C in {0,1})
	OpVar
	// BV ops
	OpAdd
	OpSub
	OpMul
	OpUDiv
	OpURem
	OpSDiv
	OpSRem
	OpAnd
	OpOr
	OpXor
	OpNot
	OpNeg
	OpShl
	OpLShr
	OpAShr
	OpConcat  // Args[0] high, Args[1] low
	OpExtract // C = lo, W = width
	OpZExt
	OpSExt
	OpIte // Args[0] Bool
	// Bool ops
	OpEq
	OpUlt
	OpUle
	OpSlt
	OpSle
	OpBNot
	OpBAnd
	OpBOr
)

var opNames = [...]string{"const", "var", "bvadd", "bvsub", "bvmul", "bvudiv", "bvurem", "bvsdiv", "bvsrem",
	"bvand", "bvor", "bvxor", "bvnot", "bvneg", "bvshl", "bvlshr", "bvashr", "concat", "extract", "zext", "sext", "ite",
	"=", "bvult", "bvule", "bvslt", "bvsle", "not", "and", "or"}

// Term is immutable. W==0 means Bool sort, otherwise (_ BitVec W).
type Term struct {
	Op   Op
	W    uint8
	C    uint64
	Name string
	Args []*Term
	id   uint32
}

func (t *Term) IsBool() bool  { return t.W == 0 }
func (t *Term) IsConst() bool { return t.Op == OpConst }
func (t *Term) ID() uint32    { return t.id }

// Store hash-conses terms. Not safe for concurrent use (one per path execution).
type Store struct {
	tab    map[string]*Term
	nextID uint32
	True   *Term
	False  *Term
	vars   map[string]*Term
	keybuf []byte
}

func NewStore() *Store {
	s := &Store{tab: make(map[string]*Term, 1024), vars: map[string]*Term{}}
	s.True = s.mk(OpConst, 0, 1, "", nil)
	s.False = s.mk(OpConst, 0, 0, "", nil)
	return s
}

func mask(w uint8) uint64 {
	if w >= 64 {
		return ^uint64(0)
	}
	return (uint64(1) << w) - 1
}

func (s *Store) mk(op Op, w uint8, c uint64, name string, args []*Term) *Term {
	b := s.keybuf[:0]
	b = append(b, byte(op), w)
	for i := 0; i < 8; i++ {
		b = append(b, byte(c>>(8*i)))
	}
	for _, a := range args {
		b = append(b, byte(a.id), byte(a.id>>8), byte(a.id>>16), byte(a.id>>24))
	}
	b = append(b, name...)
	s.keybuf = b
	if t, ok := s.tab[string(b)]; ok {
		return t
	}
	s.nextID++
	t := &Term{Op: op, W: w, C: c, Name: name, id: s.nextID}
	if len(args) > 0 {
		t.Args = append([]*Term(nil), args...)
	}
	s.tab[string(b)] = t
	return t
}

func (s *Store) NumTerms() int { return int(s.nextID) }

func (s *Store) Const(w uint8, c uint64) *Term {
	if w == 0 {
		panic("Const: width 0")
	}
	return s.mk(OpConst, w, c&mask(w), "", nil)
}

func (s *Store) Bool(b bool) *Term {
	if b {
		return s.True
	}
	return s.False
}

// Var returns the variable with this name (w==0: Bool). Same name => same term.
func (s *Store) Var(name string, w uint8) *Term {
	if t, ok := s.vars[name]; ok {
		if t.W != w {
			panic(fmt.Sprintf("Var %s redeclared with width %d (was %d)", name, w, t.W))
		}
		return t
	}
	t := s.mk(OpVar, w, 0, name, nil)
	s.vars[name] = t
	return t
}

func (s *Store) Vars() map[string]*Term { return s.vars }

func sext64(c uint64, w uint8) int64 {
	if w >= 64 {
		return int64(c)
	}
	sh := 64 - uint(w)
	return int64(c<<sh) >> sh
}

// evalOp computes op on constant operands (used by both folding and Eval).
func evalOp(op Op, w uint8, c uint64, a []uint64, aw []uint8) uint64 {
	m := mask(w)
	switch op {
	case OpAdd:
		return (a[0] + a[1]) & m
	case OpSub:
		return (a[0] - a[1]) & m
	case OpMul:
		return (a[0] * a[1]) & m
	case OpUDiv:
		if a[1] == 0 {
			return m
		}
		return a[0] / a[1]
	case OpURem:
		if a[1] == 0 {
			return a[0]
		}
		return a[0] % a[1]
	case OpSDiv:
		x, y := sext64(a[0], w), sext64(a[1], w)
		if y == 0 {
			if x >= 0 {
				return m
			}
			return 1
		}
		if y == -1 {
			return uint64(-x) & m
		}
		return uint64(x/y) & m
	case OpSRem:
		x, y := sext64(a[0], w), sext64(a[1], w)
		if y == 0 {
			return a[0]
		}
		if y == -1 {
			return 0
		}
		return uint64(x%y) & m
	case OpAnd:
		return a[0] & a[1]
	case OpOr:
		return a[0] | a[1]
	case OpXor:
		return a[0] ^ a[1]
	case OpNot:
		return ^a[0] & m
	case OpNeg:
		return (-a[0]) & m
	case OpShl:
		if a[1] >= uint64(w) {
			return 0
		}
		return (a[0] << a[1]) & m
	case OpLShr:
		if a[1] >= uint64(w) {
			return 0
		}
		return a[0] >> a[1]
	case OpAShr:
		x := sext64(a[0], w)
		if a[1] >= uint64(w) {
			if x < 0 {
				return m
			}
			return 0
		}
		return uint64(x>>a[1]) & m
	case OpConcat:
		return (a[0]<<aw[1] | a[1]) & m
	case OpExtract:
		return (a[0] >> c) & m
	case OpZExt:
		return a[0]
	case OpSExt:
		return uint64(sext64(a[0], aw[0])) & m
	case OpIte:
		if a[0] != 0 {
			return a[1]
		}
		return a[2]
	case OpEq:
		return b2u(a[0] == a[1])
	case OpUlt:
		return b2u(a[0] < a[1])
	case OpUle:
		return b2u(a[0] <= a[1])
	case OpSlt:
		return b2u(sext64(a[0], aw[0]) < sext64(a[1], aw[1]))
	case OpSle:
		return b2u(sext64(a[0], aw[0]) <= sext64(a[1], aw[1]))
	case OpBNot:
		return a[0] ^ 1
	case OpBAnd:
		r := uint64(1)
		for _, x := range a {
			r &= x
		}
		return r
	case OpBOr:
		r := uint64(0)
		for _, x := range a {
			r |= x
		}
		return r
	}
	panic("evalOp: bad op " + opNames[op])
}

func b2u(b bool) uint64 {
	if b {
		return 1
	}
	return 0
}

// ---------- constructors with simplification ----------

func (s *Store) fold(op Op, w uint8, c uint64, args ...*Term) *Term {
	var a [3]uint64
	var aw [3]uint8
	for i, x := range args {
		a[i] = x.C
		aw[i] = x.W
	}
	r := evalOp(op, w, c, a[:len(args)], aw[:len(args)])
	if w == 0 {
		return s.Bool(r != 0)
	}
	return s.Const(w, r)
}

func allConst(args ...*Term) bool {
	for _, a := range args {
		if a.Op != OpConst {
			return false
		}
	}
	return true
}

// iteConstLeaves reports whether t is a tree of ite's with constant leaves (depth-limited).
func iteConstLeaves(t *Term, depth int) bool {
	if t.Op == OpConst {
		return true
	}
	if t.Op == OpIte && depth > 0 {
		return iteConstLeaves(t.Args[1], depth-1) && iteConstLeaves(t.Args[2], depth-1)
	}
	return false
}

// pushIte applies f to the leaves of an ite-tree with constant leaves.
func (s *Store) pushIte(t *Term, f func(leaf *Term) *Term) *Term {
	if t.Op == OpIte {
		a := s.pushIte(t.Args[1], f)
		b := s.pushIte(t.Args[2], f)
		return s.Ite(t.Args[0], a, b)
	}
	return f(t)
}

func (s *Store) Bin(op Op, x, y *Term) *Term {
	if x.W != y.W {
		panic(fmt.Sprintf("Bin %s: width mismatch %d vs %d", opNames[op], x.W, y.W))
	}
	w := x.W
	if allConst(x, y) {
		return s.fold(op, w, 0, x, y)
	}
	// ite with constant leaves combined with a constant: push inside
	if y.Op == OpConst && x.Op == OpIte && iteConstLeaves(x, 4) {
		return s.pushIte(x, func(l *Term) *Term { return s.Bin(op, l, y) })
	}
	if x.Op == OpConst && y.Op == OpIte && iteConstLeaves(y, 4) {
		return s.pushIte(y, func(l *Term) *Term { return s.Bin(op, x, l) })
	}
	switch op {
	case OpAdd:
		if x.Op == OpConst && x.C == 0 {
			return y
		}
		if y.Op == OpConst && y.C == 0 {
			return x
		}
		// (a + c1) + c2
		if y.Op == OpConst && x.Op == OpAdd && x.Args[1].Op == OpConst {
			return s.Bin(OpAdd, x.Args[0], s.Const(w, x.Args[1].C+y.C))
		}
		if x.Op == OpConst { // canonical: const on the right
			x, y = y, x
		}
	case OpSub:
		if y.Op == OpConst {
			if y.C == 0 {
				return x
			}
			return s.Bin(OpAdd, x, s.Const(w, -y.C))
		}
		if x == y {
			return s.Const(w, 0)
		}
	case OpMul:
		if x.Op == OpConst {
			x, y = y, x
		}
		if y.Op == OpConst {
			if y.C == 0 {
				return s.Const(w, 0)
			}
			if y.C == 1 {
				return x
			}
		}
	case OpUDiv:
		if y.Op == OpConst && y.C == 1 {
			return x
		}
		if y.Op == OpConst && y.C != 0 && y.C&(y.C-1) == 0 {
			return s.Bin(OpLShr, x, s.Const(w, uint64(bits.TrailingZeros64(y.C))))
		}
	case OpURem:
		if y.Op == OpConst && y.C != 0 && y.C&(y.C-1) == 0 {
			return s.Bin(OpAnd, x, s.Const(w, y.C-1))
		}
	case OpAnd:
		if x.Op == OpConst {
			x, y = y, x
		}
		if y.Op == OpConst {
			if y.C == 0 {
				return y
			}
			if y.C == mask(w) {
				return x
			}
			if r := s.laneAnd(x, y.C); r != nil {
				return r
			}
		}
		if x == y {
			return x
		}
	case OpOr:
		if x.Op == OpConst {
			x, y = y, x
		}
		if y.Op == OpConst {
			if y.C == 0 {
				return x
			}
			if y.C == mask(w) {
				return y
			}
		}
		if x == y {
			return x
		}
		if r := s.laneOr(x, y); r != nil {
			return r
		}
	case OpXor:
		if x.Op == OpConst {
			x, y = y, x
		}
		if y.Op == OpConst && y.C == 0 {
			return x
		}
		if x == y {
			return s.Const(w, 0)
		}
	case OpShl, OpLShr:
		if y.Op == OpConst {
			if y.C == 0 {
				return x
			}
			if y.C >= uint64(w) {
				return s.Const(w, 0)
			}
			k := uint8(y.C)
			if op == OpShl {
				// concat(extract(w-k-1,0,x), 0_k)
				return s.Concat(s.Extract(x, 0, w-k), s.Const(k, 0))
			}
			return s.Concat(s.Const(k, 0), s.Extract(x, k, w-k))
		}
		if x.Op == OpConst && x.C == 0 {
			return x
		}
	case OpAShr:
		if y.Op == OpConst && y.C == 0 {
			return x
		}
	}
	return s.mk(op, w, 0, "", []*Term{x, y})
}

func (s *Store) Un(op Op, x *Term) *Term {
	if x.Op == OpConst {
		return s.fold(op, x.W, 0, x)
	}
	if op == OpNot && x.Op == OpNot {
		return x.Args[0]
	}
	if op == OpNeg && x.Op == OpNeg {
		return x.Args[0]
	}
	return s.mk(op, x.W, 0, "", []*Term{x})
}

func (s *Store) Extract(x *Term, lo, w uint8) *Term {
	if w == 0 {
		panic("Extract width 0")
	}
	if lo == 0 && w == x.W {
		return x
	}
	if int(lo)+int(w) > int(x.W) {
		panic(fmt.Sprintf("Extract out of range lo=%d w=%d of %d", lo, w, x.W))
	}
	switch x.Op {
	case OpConst:
		return s.Const(w, x.C>>lo)
	case OpExtract:
		return s.Extract(x.Args[0], lo+uint8(x.C), w)
	case OpConcat:
		lw := x.Args[1].W
		if lo+w <= lw {
			return s.Extract(x.Args[1], lo, w)
		}
		if lo >= lw {
			return s.Extract(x.Args[0], lo-lw, w)
		}
		// straddles
		return s.Concat(s.Extract(x.Args[0], 0, lo+w-lw), s.Extract(x.Args[1], lo, lw-lo))
	case OpZExt:
		iw := x.Args[0].W
		if lo+w <= iw {
			return s.Extract(x.Args[0], lo, w)
		}
		if lo >= iw {
			return s.Const(w, 0)
		}
		return s.Concat(s.Const(lo+w-iw, 0), s.Extract(x.Args[0], lo, iw-lo))
	case OpSExt:
		iw := x.Args[0].W
		if lo+w <= iw {
			return s.Extract(x.Args[0], lo, w)
		}
	case OpIte:
		if iteConstLeaves(x, 4) {
			return s.pushIte(x, func(l *Term) *Term { return s.Extract(l, lo, w) })
		}
	case OpAnd, OpOr, OpXor:
		// bitwise ops distribute over extract; useful when one side is const
		if x.Args[1].Op == OpConst {
			return s.Bin(x.Op, s.Extract(x.Args[0], lo, w), s.Extract(x.Args[1], lo, w))
		}
	case OpNot:
		return s.Un(OpNot, s.Extract(x.Args[0], lo, w))
	}
	return s.mk(OpExtract, w, uint64(lo), "", []*Term{x})
}

func (s *Store) Concat(hi, lo *Term) *Term {
	w := hi.W + lo.W
	if int(hi.W)+int(lo.W) > 64 {
		panic("Concat wider than 64")
	}
	if allConst(hi, lo) {
		return s.Const(w, hi.C<<lo.W|lo.C)
	}
	// zero high part => zext
	if hi.Op == OpConst && hi.C == 0 {
		return s.ZExt(lo, w)
	}
	// adjacent extracts of the same term
	if hi.Op == OpExtract && lo.Op == OpExtract && hi.Args[0] == lo.Args[0] && uint8(hi.C) == uint8(lo.C)+lo.W {
		return s.Extract(lo.Args[0], uint8(lo.C), w)
	}
	// extract(x, k..) ++ x[0..k) where lo is whole x low part: hi = extract(x,lw,..), lo = extract(x,0,lw) handled above;
	// hi = extract(x, lo.W, n) and lo == full narrower term x' = extract? skip.
	// concat(hi, concat(a,b)) with hi adjacent to a: reassociate to allow merging
	if lo.Op == OpConcat {
		h2 := s.Concat(hi, lo.Args[0])
		if h2.Op != OpConcat || h2.Args[0] != hi {
			return s.Concat(h2, lo.Args[1])
		}
	}
	if hi.Op == OpConcat {
		l2 := s.Concat(hi.Args[1], lo)
		if l2.Op != OpConcat || l2.Args[1] != lo {
			return s.Concat(hi.Args[0], l2)
		}
	}
	// zext(a) ++ b  where zext's zero part is in the middle: leave
	return s.mk(OpConcat, w, 0, "", []*Term{hi, lo})
}

func (s *Store) ZExt(x *Term, w uint8) *Term {
	if w == x.W {
		return x
	}
	if w < x.W {
		panic("ZExt narrower")
	}
	if x.Op == OpConst {
		return s.Const(w, x.C)
	}
	if x.Op == OpZExt {
		return s.ZExt(x.Args[0], w)
	}
	if x.Op == OpIte && iteConstLeaves(x, 4) {
		return s.pushIte(x, func(l *Term) *Term { return s.ZExt(l, w) })
	}
	return s.mk(OpZExt, w, 0, "", []*Term{x})
}

func (s *Store) SExt(x *Term, w uint8) *Term {
	if w == x.W {
		return x
	}
	if w < x.W {
		panic("SExt narrower")
	}
	if x.Op == OpConst {
		return s.Const(w, uint64(sext64(x.C, x.W)))
	}
	if x.Op == OpZExt { // top bit known zero
		return s.ZExt(x.Args[0], w)
	}
	if x.Op == OpIte && iteConstLeaves(x, 4) {
		return s.pushIte(x, func(l *Term) *Term { return s.SExt(l, w) })
	}
	return s.mk(OpSExt, w, 0, "", []*Term{x})
}

// pieces decomposes x into (term,width) pieces from low to high for lane merging of OR.
// Returns nil if x is not a concat/zext structure.
type piece struct {
	t *Term // nil => zero bits
	w uint8
}

func (s *Store) pieces(x *Term, out []piece) []piece {
	switch x.Op {
	case OpConcat:
		out = s.pieces(x.Args[1], out)
		out = s.pieces(x.Args[0], out)
		return out
	case OpZExt:
		out = s.pieces(x.Args[0], out)
		return append(out, piece{nil, x.W - x.Args[0].W})
	case OpConst:
		if x.C == 0 {
			return append(out, piece{nil, x.W})
		}
	}
	return append(out, piece{x, x.W})
}

// laneOr merges x|y when at every bit position at most one side is non-zero (structurally).
func (s *Store) laneOr(x, y *Term) *Term {
	if x.Op != OpConcat && x.Op != OpZExt {
		return nil
	}
	if y.Op != OpConcat && y.Op != OpZExt {
		return nil
	}
	px := s.pieces(x, nil)
	py := s.pieces(y, nil)
	// walk both from low bits
	var res *Term
	var resW uint8
	i, j := 0, 0
	var ox, oy uint8 // consumed bits within current piece
	for i < len(px) && j < len(py) {
		a, b := px[i], py[j]
		ra, rb := a.w-ox, b.w-oy
		n := ra
		if rb < n {
			n = rb
		}
		var part *Term
		switch {
		case a.t == nil && b.t == nil:
			part = s.Const(n, 0)
		case a.t == nil:
			part = s.Extract(b.t, oy, n)
		case b.t == nil:
			part = s.Extract(a.t, ox, n)
		default:
			return nil
		}
		if res == nil {
			res = part
		} else {
			res = s.Concat(part, res)
		}
		resW += n
		ox += n
		oy += n
		if ox == a.w {
			i++
			ox = 0
		}
		if oy == b.w {
			j++
			oy = 0
		}
	}
	if resW != x.W {
		return nil
	}
	return res
}

// laneAnd simplifies x & c when c is a contiguous low mask.
func (s *Store) laneAnd(x *Term, c uint64) *Term {
	if c&(c+1) == 0 && c != 0 { // low mask 2^k-1
		k := uint8(bits.Len64(c))
		if k < x.W {
			return s.ZExt(s.Extract(x, 0, k), x.W)
		}
	}
	return nil
}

func (s *Store) Ite(c, a, b *Term) *Term {
	if !c.IsBool() {
		panic("Ite: cond not Bool")
	}
	if a.W != b.W {
		panic("Ite: width mismatch")
	}
	if c.Op == OpConst {
		if c.C != 0 {
			return a
		}
		return b
	}
	if a == b {
		return a
	}
	if a.W == 0 { // Bool ite
		if a.Op == OpConst && b.Op == OpConst {
			if a.C != 0 {
				return c
			}
			return s.Not(c)
		}
		if a.Op == OpConst {
			if a.C != 0 {
				return s.Or(c, b)
			}
			return s.And(s.Not(c), b)
		}
		if b.Op == OpConst {
			if b.C != 0 {
				return s.Or(s.Not(c), a)
			}
			return s.And(c, a)
		}
	}
	if c.Op == OpBNot {
		return s.Ite(c.Args[0], b, a)
	}
	return s.mk(OpIte, a.W, 0, "", []*Term{c, a, b})
}

func (s *Store) Not(x *Term) *Term {
	if !x.IsBool() {
		panic("Not: not Bool")
	}
	switch x.Op {
	case OpConst:
		return s.Bool(x.C == 0)
	case OpBNot:
		return x.Args[0]
	}
	return s.mk(OpBNot, 0, 0, "", []*Term{x})
}

func (s *Store) And(xs ...*Term) *Term {
	var out []*Term
	for _, x := range xs {
		if !x.IsBool() {
			panic("And: not Bool")
		}
		if x.Op == OpConst {
			if x.C == 0 {
				return s.False
			}
			continue
		}
		if x.Op == OpBAnd {
			out = append(out, x.Args...)
			continue
		}
		out = append(out, x)
	}
	out = dedup(out)
	for _, x := range out {
		if x.Op == OpBNot {
			for _, y := range out {
				if y == x.Args[0] {
					return s.False
				}
			}
		}
	}
	switch len(out) {
	case 0:
		return s.True
	case 1:
		return out[0]
	}
	return s.mk(OpBAnd, 0, 0, "", out)
}

func (s *Store) Or(xs ...*Term) *Term {
	var out []*Term
	for _, x := range xs {
		if !x.IsBool() {
			panic("Or: not Bool")
		}
		if x.Op == OpConst {
			if x.C != 0 {
				return s.True
			}
			continue
		}
		if x.Op == OpBOr {
			out = append(out, x.Args...)
			continue
		}
		out = append(out, x)
	}
	out = dedup(out)
	for _, x := range out {
		if x.Op == OpBNot {
			for _, y := range out {
				if y == x.Args[0] {
					return s.True
				}
			}
		}
	}
	switch len(out) {
	case 0:
		return s.False
	case 1:
		return out[0]
	}
	return s.mk(OpBOr, 0, 0, "", out)
}

func dedup(xs []*Term) []*Term {
	if len(xs) < 2 {
		return xs
	}
	seen := make(map[*Term]bool, len(xs))
	out := xs[:0:0]
	for _, x := range xs {
		if !seen[x] {
			seen[x] = true
			out = append(out, x)
		}
	}
	return out
}

func (s *Store) Implies(a, b *Term) *Term { return s.Or(s.Not(a), b) }

func (s *Store) Eq(x, y *Term) *Term {
	if x.W != y.W {
		panic(fmt.Sprintf("Eq: width mismatch %d vs %d", x.W, y.W))
	}
	if x == y {
		return s.True
	}
	if allConst(x, y) {
		return s.Bool(x.C == y.C)
	}
	if x.W == 0 {
		// Bool equality
		if x.Op == OpConst {
			x, y = y, x
		}
		if y.Op == OpConst {
			if y.C != 0 {
				return x
			}
			return s.Not(x)
		}
	}
	if x.Op == OpConst {
		x, y = y, x
	}
	if y.Op == OpConst {
		if x.Op == OpIte && iteConstLeaves(x, 6) {
			return s.pushIteBool(x, func(l *Term) *Term { return s.Eq(l, y) })
		}
		switch x.Op {
		case OpZExt:
			iw := x.Args[0].W
			if y.C>>iw != 0 {
				return s.False
			}
			return s.Eq(x.Args[0], s.Const(iw, y.C))
		case OpConcat:
			lw := x.Args[1].W
			return s.And(s.Eq(x.Args[0], s.Const(x.Args[0].W, y.C>>lw)), s.Eq(x.Args[1], s.Const(lw, y.C)))
		case OpAdd:
			if x.Args[1].Op == OpConst {
				return s.Eq(x.Args[0], s.Const(x.W, y.C-x.Args[1].C))
			}
		case OpXor:
			if x.Args[1].Op == OpConst {
				return s.Eq(x.Args[0], s.Const(x.W, y.C^x.Args[1].C))
			}
		}
	}
	if x.Op == OpZExt && y.Op == OpZExt && x.Args[0].W == y.Args[0].W {
		return s.Eq(x.Args[0], y.Args[0])
	}
	if x.id > y.id {
		x, y = y, x
	}
	return s.mk(OpEq, 0, 0, "", []*Term{x, y})
}

func (s *Store) pushIteBool(t *Term, f func(leaf *Term) *Term) *Term {
	if t.Op == OpIte {
		a := s.pushIteBool(t.Args[1], f)
		b := s.pushIteBool(t.Args[2], f)
		return s.Ite(t.Args[0], a, b)
	}
	return f(t)
}

func (s *Store) Cmp(op Op, x, y *Term) *Term {
	if x.W != y.W {
		panic(fmt.Sprintf("Cmp: width mismatch %d vs %d", x.W, y.W))
	}
	if allConst(x, y) {
		return s.fold(op, 0, 0, x, y)
	}
	if x == y {
		return s.Bool(op == OpUle || op == OpSle)
	}
	if y.Op == OpConst && x.Op == OpIte && iteConstLeaves(x, 6) {
		return s.pushIteBool(x, func(l *Term) *Term { return s.Cmp(op, l, y) })
	}
	if x.Op == OpConst && y.Op == OpIte && iteConstLeaves(y, 6) {
		return s.pushIteBool(y, func(l *Term) *Term { return s.Cmp(op, x, l) })
	}
	switch op {
	case OpUlt:
		if y.Op == OpConst && y.C == 0 {
			return s.False
		}
		if x.Op == OpConst && x.C == mask(x.W) {
			return s.False
		}
	case OpUle:
		if x.Op == OpConst && x.C == 0 {
			return s.True
		}
		if y.Op == OpConst && y.C == mask(y.W) {
			return s.True
		}
	}
	// zext vs zext / const: compare at narrower width (unsigned; also signed when top bit zero)
	if x.Op == OpZExt && y.Op == OpZExt && x.Args[0].W == y.Args[0].W {
		uop := op
		if op == OpSlt {
			uop = OpUlt
		} else if op == OpSle {
			uop = OpUle
		}
		return s.Cmp(uop, x.Args[0], y.Args[0])
	}
	return s.mk(op, 0, 0, "", []*Term{x, y})
}

// ---------- evaluation under a model ----------

type Model map[string]uint64

// Eval evaluates t under m; variables missing from m evaluate to 0.
func Eval(t *Term, m Model, memo map[*Term]uint64) uint64 {
	if t.Op == OpConst {
		return t.C
	}
	if v, ok := memo[t]; ok {
		return v
	}
	var r uint64
	switch t.Op {
	case OpVar:
		r = m[t.Name] & maskB(t.W)
	case OpIte:
		if Eval(t.Args[0], m, memo) != 0 {
			r = Eval(t.Args[1], m, memo)
		} else {
			r = Eval(t.Args[2], m, memo)
		}
	case OpBAnd:
		r = 1
		for _, a := range t.Args {
			if Eval(a, m, memo) == 0 {
				r = 0
				break
			}
		}
	case OpBOr:
		r = 0
		for _, a := range t.Args {
			if Eval(a, m, memo) != 0 {
				r = 1
				break
			}
		}
	default:
		var a [3]uint64
		var aw [3]uint8
		for i, x := range t.Args {
			a[i] = Eval(x, m, memo)
			aw[i] = x.W
		}
		r = evalOp(t.Op, t.W, t.C, a[:len(t.Args)], aw[:len(t.Args)])
	}
	memo[t] = r
	return r
}

func maskB(w uint8) uint64 {
	if w == 0 {
		return 1
	}
	return mask(w)
}

// ---------- printing ----------

func sortStr(w uint8) string {
	if w == 0 {
		return "Bool"
	}
	return fmt.Sprintf("(_ BitVec %d)", w)
}

func constStr(w uint8, c uint64) string {
	if w == 0 {
		if c != 0 {
			return "true"
		}
		return "false"
	}
	if w%4 == 0 {
		return fmt.Sprintf("#x%0*x", int(w/4), c)
	}
	return fmt.Sprintf("#b%0*b", int(w), c)
}

// Printer renders terms, naming large shared subterms with define-fun.
type Printer struct {
	names map[*Term]string
	Defs  []string // pending definitions/declarations to emit before use
	decl  map[string]bool
}

func NewPrinter() *Printer {
	return &Printer{names: map[*Term]string{}, decl: map[string]bool{}}
}

func quoteSym(n string) string { return "|" + n + "|" }

// Str returns the SMT-LIB text for t, appending needed declarations/definitions to p.Defs.
func (p *Printer) Str(t *Term) string {
	if n, ok := p.names[t]; ok {
		return n
	}
	var out string
	switch t.Op {
	case OpConst:
		return constStr(t.W, t.C)
	case OpVar:
		q := quoteSym(t.Name)
		if !p.decl[t.Name] {
			p.decl[t.Name] = true
			p.Defs = append(p.Defs, fmt.Sprintf("(declare-const %s %s)", q, sortStr(t.W)))
		}
		p.names[t] = q
		return q
	case OpExtract:
		out = fmt.Sprintf("((_ extract %d %d) %s)", int(t.C)+int(t.W)-1, t.C, p.Str(t.Args[0]))
	case OpZExt:
		out = fmt.Sprintf("((_ zero_extend %d) %s)", t.W-t.Args[0].W, p.Str(t.Args[0]))
	case OpSExt:
		out = fmt.Sprintf("((_ sign_extend %d) %s)", t.W-t.Args[0].W, p.Str(t.Args[0]))
	default:
		var sb strings.Builder
		sb.WriteByte('(')
		sb.WriteString(opNames[t.Op])
		for _, a := range t.Args {
			sb.WriteByte(' ')
			sb.WriteString(p.Str(a))
		}
		sb.WriteByte(')')
		out = sb.String()
	}
	if len(out) > 160 {
		n := fmt.Sprintf("_t%d", t.id)
		p.Defs = append(p.Defs, fmt.Sprintf("(define-fun %s () %s %s)", n, sortStr(t.W), out))
		p.names[t] = n
		return n
	}
	p.names[t] = out
	return out
}

// TakeDefs returns and clears pending definitions.
func (p *Printer) TakeDefs() []string {
	d := p.Defs
	p.Defs = nil
	return d
}

// String renders a term for humans (no sharing).
func (t *Term) String() string {
	p := NewPrinter()
	s := p.Str(t)
	if len(p.Defs) > 0 && strings.HasPrefix(s, "_t") {
		return s + " where " + strings.Join(p.Defs, " ")
	}
	return s
}
