package smt

import (
	"bufio"
	"fmt"
	"io"
	"os/exec"
	"strconv"
	"strings"
	"time"
)

type Result int

const (
	Unsat Result = iota
	Sat
	Unknown
	Error
)

func (r Result) String() string {
	return [...]string{"unsat", "sat", "unknown", "error"}[r]
}

// Solver wraps one long-lived solver process speaking SMT-LIB2 over a pipe.
type Solver struct {
	Kind     string // "z3", "z3-new", "cvc5"
	cmd      *exec.Cmd
	in       io.WriteCloser
	out      *bufio.Reader
	pr       *Printer
	depth    int
	Stats    Stats
	LogTo    io.Writer // optional transcript
	timeout  int       // ms per check
	dead     bool
	LastErr  string
	Assuming bool // use check-sat-assuming instead of push/pop per query
	qseq     int
	Answers  []Result // every check-sat answer in order (only recorded while LogTo is set)
}

type Stats struct {
	Queries  int
	Sat      int
	Unsat    int
	Unknown  int
	Errors   int
	Time     time.Duration
	MaxQuery time.Duration
}

func NewSolver(kind string, timeoutMs int) (*Solver, error) {
	var cmd *exec.Cmd
	switch kind {
	case "z3", "z3-new":
		cmd = exec.Command(kind, "-in", "-smt2")
	case "cvc5":
		cmd = exec.Command("cvc5", "--incremental", "--lang=smt2", "--produce-models", fmt.Sprintf("--tlimit-per=%d", timeoutMs))
	default:
		return nil, fmt.Errorf("unknown solver %q", kind)
	}
	in, err := cmd.StdinPipe()
	if err != nil {
		return nil, err
	}
	outp, err := cmd.StdoutPipe()
	if err != nil {
		return nil, err
	}
	cmd.Stderr = cmd.Stdout
	if err := cmd.Start(); err != nil {
		return nil, err
	}
	s := &Solver{Kind: kind, cmd: cmd, in: in, out: bufio.NewReaderSize(outp, 1<<16), timeout: timeoutMs}
	s.send("(set-option :produce-models true)")
	s.send("(set-logic ALL)")
	if kind != "cvc5" {
		s.send(fmt.Sprintf("(set-option :timeout %d)", timeoutMs))
	}
	return s, nil
}

func (s *Solver) send(line string) {
	if s.dead {
		return
	}
	if s.LogTo != nil {
		fmt.Fprintln(s.LogTo, line)
	}
	if _, err := io.WriteString(s.in, line+"\n"); err != nil {
		s.dead = true
		s.LastErr = err.Error()
	}
}

// readSexp reads one balanced s-expression or atom line from the solver.
func (s *Solver) readSexp() (string, error) {
	var sb strings.Builder
	depth := 0
	started := false
	inBar := false
	for {
		c, err := s.out.ReadByte()
		if err != nil {
			s.dead = true
			return sb.String(), err
		}
		if !started {
			if c == ' ' || c == '\n' || c == '\r' || c == '\t' {
				continue
			}
			started = true
		}
		sb.WriteByte(c)
		if inBar {
			if c == '|' {
				inBar = false
			}
			continue
		}
		switch c {
		case '|':
			inBar = true
		case '(':
			depth++
		case ')':
			depth--
			if depth == 0 {
				return sb.String(), nil
			}
		case '\n':
			if depth == 0 {
				return strings.TrimSpace(sb.String()), nil
			}
		}
	}
}

// BeginPath opens a fresh scope with a fresh printer. Must be paired with EndPath.
func (s *Solver) BeginPath() {
	s.pr = NewPrinter()
	s.send("(push 1)")
	s.depth = 1
}

func (s *Solver) EndPath() {
	for s.depth > 0 {
		s.send("(pop 1)")
		s.depth--
	}
	s.pr = nil
}

func (s *Solver) emit(t *Term) string {
	str := s.pr.Str(t)
	for _, d := range s.pr.TakeDefs() {
		s.send(d)
	}
	return str
}

// Assert adds t to the path condition (path scope).
func (s *Solver) Assert(t *Term) {
	if t.Op == OpConst && t.C != 0 {
		return
	}
	str := s.emit(t)
	s.send("(assert " + str + ")")
}

// Check decides PC ∧ extra. If wantModel and sat, returns values for vars.
func (s *Solver) Check(extra *Term, vars map[string]*Term, wantModel bool) (Result, Model) {
	if s.dead {
		return Error, nil
	}
	t0 := time.Now()
	var str string
	if extra != nil {
		str = s.emit(extra)
	}
	// make sure all vars are declared (so get-value works)
	if wantModel {
		for _, v := range vars {
			s.emit(v)
		}
	}
	assuming := s.Assuming && extra != nil
	if assuming {
		// no push/pop: guard the extra constraint by a fresh literal and assume it for this query only
		s.qseq++
		q := fmt.Sprintf("_q%d", s.qseq)
		s.send("(declare-const " + q + " Bool)")
		s.send("(assert (=> " + q + " " + str + "))")
		s.send("(check-sat-assuming (" + q + "))")
	} else {
		s.send("(push 1)")
		if extra != nil {
			s.send("(assert " + str + ")")
		}
		s.send("(check-sat)")
	}
	res := s.readResult()
	var m Model
	if res == Sat && wantModel && len(vars) > 0 {
		var sb strings.Builder
		sb.WriteString("(get-value (")
		for n := range vars {
			sb.WriteString(quoteSym(n))
			sb.WriteByte(' ')
		}
		sb.WriteString("))")
		s.send(sb.String())
		s.send("(echo \"" + doneMark + "\")")
		lines := s.readUntilDone()
		if len(lines) != 1 || strings.HasPrefix(lines[0], "(error") {
			s.LastErr = strings.Join(lines, " ")
			res = Error
		} else {
			m = parseValues(lines[0])
		}
	}
	if !assuming {
		s.send("(pop 1)")
	}
	d := time.Since(t0)
	if s.LogTo != nil {
		s.Answers = append(s.Answers, res)
	}
	s.Stats.Queries++
	s.Stats.Time += d
	if d > s.Stats.MaxQuery {
		s.Stats.MaxQuery = d
	}
	switch res {
	case Sat:
		s.Stats.Sat++
	case Unsat:
		s.Stats.Unsat++
	case Unknown:
		s.Stats.Unknown++
	default:
		s.Stats.Errors++
	}
	return res, m
}

const doneMark = "<<done>>"

// readUntilDone collects solver responses up to the echo marker.
func (s *Solver) readUntilDone() []string {
	var out []string
	for {
		txt, err := s.readSexp()
		if err != nil {
			s.LastErr = "solver died: " + err.Error() + " " + txt
			return append(out, "(error \"solver died\")")
		}
		if strings.Contains(txt, doneMark) {
			return out
		}
		if txt != "" {
			out = append(out, txt)
		}
	}
}

func (s *Solver) readResult() Result {
	s.send("(echo \"" + doneMark + "\")")
	lines := s.readUntilDone()
	res := Error
	sawErr := false
	for _, l := range lines {
		switch {
		case l == "sat":
			res = Sat
		case l == "unsat":
			res = Unsat
		case l == "unknown" || l == "timeout":
			res = Unknown
		case strings.HasPrefix(l, "(error"):
			sawErr = true
			s.LastErr = l
		default:
			sawErr = true
			s.LastErr = "unexpected solver output: " + l
		}
	}
	if sawErr {
		return Error
	}
	return res
}

// parseValues parses ((|a| #x00) (|b| true) ...)
func parseValues(txt string) Model {
	m := Model{}
	i := 0
	n := len(txt)
	skip := func() {
		for i < n && (txt[i] == ' ' || txt[i] == '\n' || txt[i] == '\r' || txt[i] == '\t') {
			i++
		}
	}
	skip()
	if i < n && txt[i] == '(' {
		i++
	}
	for {
		skip()
		if i >= n || txt[i] == ')' {
			break
		}
		if txt[i] != '(' {
			break
		}
		i++
		skip()
		// name
		var name string
		if txt[i] == '|' {
			j := strings.IndexByte(txt[i+1:], '|')
			name = txt[i+1 : i+1+j]
			i = i + 1 + j + 1
		} else {
			j := i
			for j < n && txt[j] != ' ' && txt[j] != '\n' {
				j++
			}
			name = txt[i:j]
			i = j
		}
		skip()
		// value: atom or (_ bvN w)
		j := i
		depth := 0
		for j < n {
			if txt[j] == '(' {
				depth++
			} else if txt[j] == ')' {
				if depth == 0 {
					break
				}
				depth--
			}
			j++
		}
		val := strings.TrimSpace(txt[i:j])
		i = j + 1
		m[name] = parseVal(val)
	}
	return m
}

func parseVal(v string) uint64 {
	switch {
	case v == "true":
		return 1
	case v == "false":
		return 0
	case strings.HasPrefix(v, "#x"):
		x, _ := strconv.ParseUint(v[2:], 16, 64)
		return x
	case strings.HasPrefix(v, "#b"):
		x, _ := strconv.ParseUint(v[2:], 2, 64)
		return x
	case strings.HasPrefix(v, "(_ bv"):
		f := strings.Fields(v[5:])
		x, _ := strconv.ParseUint(f[0], 10, 64)
		return x
	}
	return 0
}

func (s *Solver) Close() {
	if s.cmd == nil {
		return
	}
	s.send("(exit)")
	s.in.Close()
	done := make(chan struct{})
	go func() { s.cmd.Wait(); close(done) }()
	select {
	case <-done:
	case <-time.After(2 * time.Second):
		s.cmd.Process.Kill()
	}
	s.cmd = nil
}

func (s *Solver) Dead() bool { return s.dead }

// ReplayTranscript feeds a recorded session to another solver and returns its check-sat answers in order.
func ReplayTranscript(kind string, transcript []byte, timeout time.Duration) ([]Result, error) {
	var cmd *exec.Cmd
	switch kind {
	case "z3", "z3-new":
		cmd = exec.Command(kind, "-in", "-smt2")
	case "cvc5":
		cmd = exec.Command("cvc5", "--incremental", "--lang=smt2", "--produce-models", "--tlimit-per=60000")
	default:
		return nil, fmt.Errorf("unknown solver %q", kind)
	}
	cmd.Stdin = strings.NewReader(string(transcript) + "\n(exit)\n")
	done := make(chan struct{})
	var out []byte
	var err error
	go func() { out, err = cmd.CombinedOutput(); close(done) }()
	select {
	case <-done:
	case <-time.After(timeout):
		if cmd.Process != nil {
			cmd.Process.Kill()
		}
		<-done
		return nil, fmt.Errorf("%s timed out", kind)
	}
	_ = err
	var res []Result
	for _, l := range strings.Split(string(out), "\n") {
		switch strings.TrimSpace(l) {
		case "sat":
			res = append(res, Sat)
		case "unsat":
			res = append(res, Unsat)
		case "unknown", "timeout":
			res = append(res, Unknown)
		}
	}
	return res, nil
}
