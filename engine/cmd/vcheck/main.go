package main

import (
	"flag"
	"fmt"
	"os"
	"runtime/pprof"
	"sort"
	"strconv"
	"strings"
	"time"

	"gosx/sx"
)

type multiFlag []string

func (m *multiFlag) String() string     { return strings.Join(*m, ",") }
func (m *multiFlag) Set(s string) error { *m = append(*m, s); return nil }

func main() {
	if len(os.Args) < 2 {
		fmt.Fprintln(os.Stderr, "usage: vcheck dev|check ...")
		os.Exit(2)
	}
	switch os.Args[1] {
	case "dev":
		devMain(os.Args[2:])
	case "check":
		checkMain(os.Args[2:])
	case "axes":
		axesMain()
	default:
		// vcheck C11 --tier quick
		checkMain(os.Args[1:])
	}
}

func devMain(args []string) {
	fs := flag.NewFlagSet("dev", flag.ExitOnError)
	h := fs.String("h", "datafile", "harness dir (datafile, root, index, datatype, fio)")
	fn := fs.String("fn", "", "harness function")
	var params, scales multiFlag
	fs.Var(&params, "p", "param k=v")
	fs.Var(&scales, "scale", "file:const=lit")
	workers := fs.Int("w", 0, "workers")
	maxPaths := fs.Int("maxpaths", 0, "path cap")
	solver := fs.String("solver", "z3", "solver")
	verbose := fs.Bool("v", false, "verbose")
	prof := fs.String("cpuprofile", "", "write cpu profile")
	fs.Parse(args)
	if *prof != "" {
		f, _ := os.Create(*prof)
		pprof.StartCPUProfile(f)
		defer pprof.StopCPUProfile()
	}
	spec := overlaySpec{Harness: []string{*h}, Scale: map[string]string{}}
	for _, s := range scales {
		kv := strings.SplitN(s, "=", 2)
		spec.Scale[kv[0]] = kv[1]
	}
	ov, err := buildOverlay(spec)
	if err != nil {
		fmt.Fprintln(os.Stderr, "overlay:", err)
		os.Exit(2)
	}
	t0 := time.Now()
	P, err := sx.Load(repoDir, []string{".", "./datafile", "./index", "./fio", "./utils", "./datatype"}, ov)
	if err != nil {
		fmt.Fprintln(os.Stderr, "load:", err)
		os.Exit(2)
	}
	fmt.Printf("loaded in %v, module %s\n", time.Since(t0), P.ModulePath)
	pm := map[string]int64{}
	for _, s := range params {
		kv := strings.SplitN(s, "=", 2)
		v, _ := strconv.ParseInt(kv[1], 10, 64)
		pm[kv[0]] = v
	}
	pkg := P.ModulePath
	if *h != "root" {
		pkg += "/" + *h
	}
	job := &sx.Job{Name: *fn, Pkg: pkg, Func: *fn, Params: pm, Limits: sx.Limits{Workers: *workers, MaxPaths: *maxPaths, SolverKind: *solver}}
	res := P.RunJob(job)
	printJob(res, *verbose)
}

func printJob(res *sx.JobResult, verbose bool) {
	fmt.Printf("job %s: wall %v paths %v steps %d decisions %d distinct %d\n", res.Name, res.Wall, res.Counts, res.Steps, res.Decisions, res.Distinct)
	fmt.Printf("  queries %d (sat %d unsat %d unknown %d err %d) solver time %v max %v verdicts %d\n", res.Queries.Queries, res.Queries.Sat, res.Queries.Unsat,
		res.Queries.Unknown, res.Queries.Errors, res.Queries.Time, res.Queries.MaxQuery, res.Verdicts)
	if res.Incomplete != "" {
		fmt.Printf("  INCOMPLETE: %s\n", res.Incomplete)
	}
	var rk []string
	for k, v := range res.Reach {
		rk = append(rk, fmt.Sprintf("%s=%d", k, v))
	}
	sort.Strings(rk)
	fmt.Printf("  reach: %s\n", strings.Join(rk, " "))
	shown := map[string]int{}
	for _, p := range res.Paths {
		key := p.Status.String() + ":" + p.AssertID + ":" + firstLine(p.Msg)
		shown[key]++
		if shown[key] > 2 && !verbose {
			continue
		}
		fmt.Printf("  [%s] %s %s\n      choices=%v notes=%v\n", p.Status, p.AssertID, p.Msg, p.Choices, p.Notes)
		if verbose && p.Model != nil {
			fmt.Printf("      model=%v\n", p.Model)
		}
	}
	for k, n := range shown {
		if n > 2 {
			fmt.Printf("  (%d x %s)\n", n, k)
		}
	}
}

func firstLine(s string) string {
	if i := strings.IndexByte(s, '\n'); i >= 0 {
		return s[:i]
	}
	if len(s) > 100 {
		return s[:100]
	}
	return s
}

// axesMain prints, per check and tier, which values of the configuration axes its jobs cover
// (a reading aid for spotting scenario gaps; no verification happens here).
func axesMain() {
	axes := []string{"index", "shards", "io", "sync", "dfs_hi", "bsync", "premerge", "powerloss", "crash2", "permute", "preempt"}
	var ids []string
	for id := range checks {
		ids = append(ids, id)
	}
	sort.Strings(ids)
	for _, id := range ids {
		for _, tier := range []string{"quick", "thorough"} {
			seen := map[string]map[int64]bool{}
			opsSeen := map[int64]bool{}
			n := 0
			for _, js := range checks[id].Jobs(tier) {
				if js.Witness {
					continue
				}
				n++
				for _, a := range axes {
					if seen[a] == nil {
						seen[a] = map[int64]bool{}
					}
					seen[a][js.Params[a]] = true
				}
				for _, k := range []string{"ops", "ops2", "tailops"} {
					opsSeen[js.Params[k]] = true
				}
			}
			var parts []string
			for _, a := range axes {
				var vs []int
				for v := range seen[a] {
					vs = append(vs, int(v))
				}
				sort.Ints(vs)
				if len(vs) == 1 && vs[0] == 0 {
					continue
				}
				parts = append(parts, fmt.Sprintf("%s=%v", a, vs))
			}
			var union int64
			for m := range opsSeen {
				union |= m
			}
			fmt.Printf("%s %-8s %2d jobs  opsmask=%#x  %s\n", id, tier, n, union, strings.Join(parts, " "))
		}
	}
}
