package main

import (
	"bytes"
	"context"
	"encoding/hex"
	"encoding/json"
	"fmt"
	"os"
	"os/exec"
	"path/filepath"
	"regexp"
	"strings"
	"time"

	"gosx/sx"
)

type replayModel struct {
	Vars    map[string]uint64 `json:"vars"`
	Choices map[string]uint64 `json:"choices"`
	Params  map[string]int64  `json:"params"`
	Known   map[string]bool   `json:"known"`
	Files   map[string]string `json:"files"`
	Restore bool              `json:"restore_files"`
	// informational
	Property string            `json:"property"`
	Job      string            `json:"job"`
	Harness  string            `json:"harness"`
	Func     string            `json:"func"`
	Scale    map[string]string `json:"scale"`
	AssertID string            `json:"assert_id"`
	Msg      string            `json:"msg"`
	Notes    map[string]string `json:"notes"`
}

type replayOutcome struct {
	Dir        string
	Reproduced bool
	Result     string // line after VERIF-RESULT or summary
	Output     string
}

var resultRe = regexp.MustCompile(`(?m)^VERIF-RESULT: (.*)$`)

// writeReplay materialises a replay directory for a violating path and runs it natively.
func writeReplay(prop string, js *JobSpec, pr *sx.PathResult, idx int, known map[string]bool, run bool) (*replayOutcome, error) {
	return writeReplayIn(prop, "", js, pr, idx, known, run)
}

func writeReplayIn(prop, sub string, js *JobSpec, pr *sx.PathResult, idx int, known map[string]bool, run bool) (*replayOutcome, error) {
	dir := filepath.Join(verifDir, "out", "replay", prop, sub, fmt.Sprintf("%s-%d", sanitize(js.Name), idx))
	os.RemoveAll(dir)
	if err := os.MkdirAll(dir, 0755); err != nil {
		return nil, err
	}
	rm := replayModel{Vars: map[string]uint64{}, Choices: pr.Choices, Params: js.Params, Known: known, Files: map[string]string{},
		Property: prop, Job: js.Name, Harness: js.Harness, Func: js.Func, Scale: js.Scale, AssertID: pr.AssertID, Msg: pr.Msg, Notes: pr.Notes}
	for k, v := range pr.Model {
		rm.Vars[k] = v
	}
	if rl, ok := pr.Replay.(*sx.ReplayLog); ok && rl != nil {
		for p, b := range rl.Files {
			rm.Files[p] = hex.EncodeToString(b)
		}
	}
	rm.Restore = js.ReplayRestore
	mb, _ := json.MarshalIndent(rm, "", " ")
	modelPath := filepath.Join(dir, "model.json")
	if err := os.WriteFile(modelPath, mb, 0644); err != nil {
		return nil, err
	}
	// overlay with native intrinsics + harness as _test files + scaled constants
	ov, err := buildOverlay(overlaySpec{Harness: []string{js.Harness}, Scale: js.Scale, Native: true})
	if err != nil {
		return nil, err
	}
	pkgDir := pkgDirOf(js.Harness)
	pkgName, err := packageNameOf(pkgDir)
	if err != nil {
		return nil, err
	}
	testSrc := fmt.Sprintf("package %s\n\nimport \"testing\"\n\nfunc TestVerifReplay(t *testing.T) { verifRunReplay(t, %s) }\n", pkgName, js.Func)
	ov[filepath.Join(pkgDir, "zz_verif_replay_test.go")] = []byte(testSrc)
	repl := map[string]string{}
	i := 0
	for vpath, content := range ov {
		real := filepath.Join(dir, fmt.Sprintf("ov%02d_%s", i, filepath.Base(vpath)))
		i++
		if err := os.WriteFile(real, content, 0644); err != nil {
			return nil, err
		}
		repl[vpath] = real
	}
	ob, _ := json.MarshalIndent(map[string]interface{}{"Replace": repl}, "", " ")
	ovPath := filepath.Join(dir, "overlay.json")
	os.WriteFile(ovPath, ob, 0644)
	relPkg := "."
	if js.Harness != "root" {
		relPkg = "./" + js.Harness
	}
	cmdline := fmt.Sprintf("cd %s && VERIF_REPLAY=%s GOFLAGS=-mod=mod GOPROXY=off GOSUMDB=off GOTOOLCHAIN=local go test -v -vet=off -count=1 -timeout 120s -run '^TestVerifReplay$' -overlay %s %s",
		repoDir, modelPath, ovPath, relPkg)
	os.WriteFile(filepath.Join(dir, "README"), []byte("Re-run this counterexample against the real build:\n\n  "+cmdline+"\n\nexpected: "+pr.AssertID+" — "+pr.Msg+"\n"), 0644)
	out := &replayOutcome{Dir: dir}
	if !run {
		return out, nil
	}
	ctx, cancel := context.WithTimeout(context.Background(), 300*time.Second)
	defer cancel()
	count := "-count=1"
	if js.ReplayCount > 1 {
		count = fmt.Sprintf("-count=%d", js.ReplayCount)
	}
	c := exec.CommandContext(ctx, "go", "test", "-v", "-vet=off", count, "-timeout", "120s", "-run", "^TestVerifReplay$", "-overlay", ovPath, relPkg)
	c.Dir = repoDir
	c.Env = append(os.Environ(), "VERIF_REPLAY="+modelPath, "GOFLAGS=-mod=mod", "GOPROXY=off", "GOSUMDB=off", "GOTOOLCHAIN=local")
	var buf bytes.Buffer
	c.Stdout = &buf
	c.Stderr = &buf
	err = c.Run()
	out.Output = buf.String()
	os.WriteFile(filepath.Join(dir, "native_output.txt"), buf.Bytes(), 0644)
	m := resultRe.FindStringSubmatch(out.Output)
	if js.ReplayCount > 1 {
		// any failing iteration counts
		for _, mm := range resultRe.FindAllStringSubmatch(out.Output, -1) {
			if mm[1] != "ok" {
				m = mm
				break
			}
		}
	}
	switch {
	case m != nil:
		out.Result = m[1]
	case strings.Contains(out.Output, "fatal error:") || strings.Contains(out.Output, "SIGBUS") || strings.Contains(out.Output, "unexpected signal") || strings.Contains(out.Output, "signal: bus error"):
		out.Result = "fatal " + firstMatchLine(out.Output, "fatal error:", "SIGBUS", "unexpected signal", "signal: bus error")
	case strings.Contains(out.Output, "panic: test timed out"):
		out.Result = "timeout"
	case strings.Contains(out.Output, "panic:"):
		out.Result = "panic " + firstMatchLine(out.Output, "panic:")
	case err != nil:
		out.Result = "error " + err.Error()
	default:
		out.Result = "no-result"
	}
	switch {
	case pr.AssertID == "panic":
		out.Reproduced = strings.HasPrefix(out.Result, "panic")
	case pr.AssertID == "fatal":
		out.Reproduced = strings.HasPrefix(out.Result, "fatal") || strings.HasPrefix(out.Result, "timeout")
	default:
		out.Reproduced = out.Result == "assert-failed "+pr.AssertID
	}
	return out, nil
}

func firstMatchLine(out string, keys ...string) string {
	for _, l := range strings.Split(out, "\n") {
		for _, k := range keys {
			if strings.Contains(l, k) {
				return strings.TrimSpace(l)
			}
		}
	}
	return ""
}

func sanitize(s string) string {
	var sb strings.Builder
	for _, r := range s {
		if (r >= 'a' && r <= 'z') || (r >= 'A' && r <= 'Z') || (r >= '0' && r <= '9') || r == '-' || r == '_' {
			sb.WriteRune(r)
		} else {
			sb.WriteByte('_')
		}
	}
	return sb.String()
}
