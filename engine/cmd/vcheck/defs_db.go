package main

import "fmt"

const (
	opPut = 1 << iota
	opDelete
	opSync
	opMerge
	opRestart
	opBatch
)

func merge(ms ...map[string]int64) map[string]int64 {
	out := map[string]int64{}
	for _, m := range ms {
		for k, v := range m {
			out[k] = v
		}
	}
	return out
}

var idxName = map[int]string{1: "btree", 2: "skiplist", 3: "hashmap"}

func init() {
	register(&CheckDef{
		ID:    "C01",
		Title: "Reads return the latest acknowledged write",
		Reach: []string{"done", "rotated", "batch-committed", "merged", "empty-key-rejected"},
		Jobs: func(tier string) []JobSpec {
			var js []JobSpec
			add := func(name string, params map[string]int64) {
				js = append(js, JobSpec{Name: name, Harness: "root", Func: "verifHarnessC01", Params: params, Scale: scaleDF(32)})
			}
			// values: 1 byte, empty, and one that together with its key crosses a 32-byte block
			base := p("pool", 2, "klen", 1, "vlens", 3, "vbig", 25, "dfs_lo", 60, "dfs_hi", 200)
			if tier == "quick" {
				for idx := 1; idx <= 3; idx++ {
					add(fmt.Sprintf("%s-s2-std-k3", idxName[idx]), merge(base, p("k", 3, "ops", opPut|opDelete|opSync, "index", idx, "shards", 2)))
				}
				add("hashmap-s1-mmap-k3", merge(base, p("k", 3, "ops", opPut|opDelete, "index", 3, "shards", 1, "io", 1)))
				add("hashmap-s1-batch-k2", merge(base, p("k", 2, "ops", opPut|opDelete|opBatch, "bmax", 2, "index", 3, "shards", 1, "vlens", 2)))
				add("hashmap-s1-batch-long-and-short-values-k1", merge(base, p("k", 1, "ops", opBatch, "bmax", 3, "index", 3, "shards", 1, "vlens", 3, "vbig", 9, "dfs_lo", 0, "dfs_hi", 0)))
				add("btree-s1-merge-k3", merge(base, p("k", 3, "ops", opPut|opDelete|opMerge, "index", 1, "shards", 1)))
				add("skiplist-s1-sync-always-k3", merge(base, p("k", 3, "ops", opPut|opDelete, "index", 2, "shards", 1, "sync", 1, "vlens", 2)))
				// concrete key families around representation boundaries (see kit.go vConcreteKeyFamilies)
				for fam := 1; fam <= 4; fam++ {
					add(fmt.Sprintf("skiplist-s1-keyfamily%d-k3", fam), merge(base, p("ckeys", fam, "k", 3, "ops", opPut|opDelete, "index", 2, "shards", 1, "vlens", 1)))
				}
				add("btree-s2-keyfamily1-k3", merge(base, p("ckeys", 1, "k", 3, "ops", opPut|opDelete, "index", 1, "shards", 2, "vlens", 1)))
				add("hashmap-s1-empty-key-k3", merge(base, p("k", 3, "ops", opPut|opDelete, "index", 3, "shards", 1, "vlens", 2, "emptykey", 1)))
				// DataFileSize from 1 byte up: smaller than any record, exactly one record, one byte more ...
				add("hashmap-s1-tiny-dfs-k2", merge(base, p("k", 2, "ops", opPut|opDelete|opMerge, "index", 3, "shards", 1, "vlens", 2, "dfs_lo", 1, "dfs_hi", 30)))
				// a crowd of 70 more (concrete, untouched) keys: B-tree node splits (degree 32), skip-list levels, every shard populated
				add("btree-s1-crowd70-k2", merge(base, p("crowd", 70, "k", 2, "ops", opPut|opDelete, "index", 1, "shards", 1, "vlens", 1, "dfs_lo", 0, "dfs_hi", 0)))
				add("skiplist-s3-crowd40-k2", merge(base, p("crowd", 40, "k", 2, "ops", opPut|opDelete, "index", 2, "shards", 3, "vlens", 1, "dfs_lo", 0, "dfs_hi", 0)))
				// REAL geometry (32 KiB blocks, nothing scaled): value lengths in a window around the one that ends the
				// record on the first block boundary; long values are concrete filler with 3 symbolic bytes
				js = append(js, JobSpec{Name: "real-geometry-block-boundary-k2", Harness: "root", Func: "verifHarnessC01", Params: merge(base, p("k", 2, "ops", opPut|opDelete, "index", 3, "shards", 1, "vlens", 1, "vwin_lo", 32768-30, "vwin_hi", 32768-10, "sparse", 1, "dfs_lo", 0, "dfs_hi", 0)), Scale: map[string]string{}, ConcCap: 256})
				// every IndexType x ShardNum{1,3} x FileIOType x SyncStrategy combination as a choice point
				add("cfgsweep-k2", merge(base, p("cfgsweep", 2, "k", 2, "ops", opPut|opDelete|opMerge, "vlens", 1, "dfs_lo", 40, "dfs_hi", 40)))
				add("hashmap-s3-keyfamily2-k3", merge(base, p("ckeys", 2, "k", 3, "ops", opPut|opDelete, "index", 3, "shards", 3, "vlens", 1)))
				add("hashmap-s16-xxhash-collision-keys-batch-k2", merge(base, p("ckeys", 5, "k", 2, "ops", opPut|opDelete|opBatch, "bmax", 2, "index", 3, "shards", 16, "vlens", 1)))
				add("btree-s3-sync-threshold-mmap-k2", merge(base, p("k", 2, "ops", opPut|opDelete, "index", 1, "shards", 3, "sync", 2, "io", 1, "vlens", 2)))
			} else {
				for idx := 1; idx <= 3; idx++ {
					for _, sh := range []int{1, 2, 3} {
						add(fmt.Sprintf("%s-s%d-std-k4", idxName[idx], sh), merge(base, p("k", 4, "ops", opPut|opDelete|opSync, "index", idx, "shards", sh)))
					}
					add(fmt.Sprintf("%s-s2-mmap-k3", idxName[idx]), merge(base, p("k", 3, "ops", opPut|opDelete, "index", idx, "shards", 2, "io", 1)))
					add(fmt.Sprintf("%s-s1-batch-merge-k3", idxName[idx]), merge(base, p("k", 3, "ops", opPut|opDelete|opBatch|opMerge, "bmax", 2, "index", idx, "shards", 1)))
				}
				add("hashmap-s2-pool3-k4", merge(base, p("k", 4, "pool", 3, "klen", 2, "ops", opPut|opDelete, "index", 3, "shards", 2)))
				add("hashmap-s1-bigvals-k3", merge(base, p("k", 3, "vlens", 5, "vbig2", 50, "vbig3", 75, "ops", opPut|opDelete, "index", 3, "shards", 1)))
				add("cfgsweep-k3", merge(base, p("cfgsweep", 1, "k", 3, "ops", opPut|opDelete|opBatch|opMerge|opSync, "bmax", 2, "vlens", 2, "dfs_lo", 60, "dfs_hi", 100)))
				js = append(js, JobSpec{Name: "real-geometry-block-boundary-k3-btree", Harness: "root", Func: "verifHarnessC01", Params: merge(base, p("k", 3, "ops", opPut|opDelete, "index", 1, "shards", 2, "vlens", 1, "vwin_lo", 32768-30, "vwin_hi", 32768-8, "sparse", 1, "dfs_lo", 0, "dfs_hi", 0)), Scale: map[string]string{}, ConcCap: 256})
				js = append(js, JobSpec{Name: "real-geometry-two-blocks-mmap-k2", Harness: "root", Func: "verifHarnessC01", Params: merge(base, p("k", 2, "ops", opPut|opDelete, "index", 3, "shards", 1, "io", 1, "vlens", 1, "vwin_lo", 65536-40, "vwin_hi", 65536-12, "sparse", 1, "dfs_lo", 0, "dfs_hi", 0)), Scale: map[string]string{"fio/mmap.go:blockSize": "262144"}, ConcCap: 256, PageSize: 4096})
			}
			js = append(js, JobSpec{Name: "witness", Harness: "root", Func: "verifHarnessC01", Params: merge(base, p("k", 1, "ops", opPut, "index", 3, "shards", 1, "witness", 1)), Scale: scaleDF(32), Witness: true})
			return js
		},
		Assumptions: []string{"blockSize scaled to 32 (Level 1)", "I/O never fails", "single client"},
		Bounds: map[string]string{
			"quick":    "K=3 ops over {Put,Delete,Sync}(+batch of <=2 ops, +Merge), pool of 2 symbolic 1-byte keys, value lengths {0,1,25}, DataFileSize symbolic in [60,200], every IndexType, ShardNum 1-2, both I/O types; plus: SyncStrategy Always/Threshold; concrete key families around representation boundaries (7/8/9-byte keys sharing a prefix, prefix-of-each-other, 0x00/0xFF neighbours, all-0xFF); empty key rejected everywhere; DataFileSize symbolic from 1 byte; the configuration as a choice point (IndexType x ShardNum{1,3} x FileIOType x SyncStrategy{No,Always}); one job at REAL geometry (value lengths in a window that ends the record around the first 32 KiB boundary, sparse symbolic content); Fold with an early-stopping callback",
			"thorough": "K=4 (K=3 with batches/merge), pool 2-3 keys of 1-2 bytes, value lengths {0,1,25,50,75}, DataFileSize symbolic in [60,200], IndexType x ShardNum{1,2,3} x I/O type",
		},
		Outside: "sequences longer than K; keys longer than 2 bytes; real 32 KiB geometry; I/O errors; concurrency (C08/C09)",
		Stubs:   stubsCommon,
	})
}

func init() {
	register(&CheckDef{
		ID:    "C05",
		Title: "Batch staging semantics: read-your-writes, in-order application",
		Reach: []string{"done", "pre-rotated", "batch-overflow-flush"},
		Jobs: func(tier string) []JobSpec {
			var js []JobSpec
			add := func(name string, params map[string]int64) {
				js = append(js, JobSpec{Name: name, Harness: "root", Func: "verifHarnessC05", Params: params, Scale: scaleDF(32)})
			}
			base := p("pool", 2, "klen", 1, "vlens", 2)
			if tier == "quick" {
				add("hashmap-k3-pre1", merge(base, p("k", 3, "pre", 1, "index", 3, "shards", 1)))
				add("btree-k2-pre2-rot", merge(base, p("k", 2, "pre", 2, "index", 1, "shards", 1, "dfs_lo", 40, "dfs_hi", 100)))
				add("hashmap-k3-overflow", merge(base, p("k", 3, "pre", 0, "index", 3, "shards", 1, "vlens", 3, "vbig", 20, "dfs_lo", 110, "dfs_hi", 170)))
				add("skiplist-k3-pre1-s2", merge(base, p("k", 3, "pre", 1, "index", 2, "shards", 2, "vlens", 1)))
				add("skiplist-k2-pool3-s1", merge(base, p("k", 2, "pre", 2, "pool", 3, "index", 2, "shards", 1, "vlens", 1)))
				add("btree-k2-mmap-s2", merge(base, p("k", 2, "pre", 1, "index", 1, "shards", 2, "io", 1)))
				// two different keys with the same xxhash64 (key family 5) inside one batch
				add("hashmap-k3-xxhash-collision-keys", merge(base, p("ckeys", 5, "k", 3, "pre", 1, "index", 3, "shards", 2, "vlens", 1)))
				add("cfgsweep-k2-pre1", merge(base, p("cfgsweep", 2, "k", 2, "pre", 1, "vlens", 1, "dfs_lo", 40, "dfs_hi", 40)))
			} else {
				for idx := 1; idx <= 3; idx++ {
					add(fmt.Sprintf("%s-k4-pre1", idxName[idx]), merge(base, p("k", 4, "pre", 1, "index", idx, "shards", 2)))
					add(fmt.Sprintf("%s-k3-pre2-rot", idxName[idx]), merge(base, p("k", 3, "pre", 2, "index", idx, "shards", 1, "dfs_lo", 40, "dfs_hi", 130)))
				}
				add("hashmap-k4-overflow", merge(base, p("k", 4, "pre", 1, "index", 3, "shards", 1, "vlens", 3, "vbig", 20, "dfs_lo", 110, "dfs_hi", 200)))
				add("hashmap-k3-pool3", merge(base, p("k", 3, "pre", 1, "pool", 3, "klen", 2, "index", 3, "shards", 2)))
				add("hashmap-k3-bsync-mmap", merge(base, p("k", 3, "pre", 1, "index", 3, "shards", 1, "bsync", 1, "io", 1)))
			}
			js = append(js, JobSpec{Name: "witness", Harness: "root", Func: "verifHarnessC05", Params: merge(base, p("k", 1, "pre", 0, "index", 3, "shards", 1, "witness", 1)), Scale: scaleDF(32), Witness: true})
			return js
		},
		Assumptions: []string{"blockSize scaled to 32 (Level 1)", "I/O never fails", "single client (the batch holds the database lock)"},
		Bounds: map[string]string{
			"quick":    "0-2 plain puts before the batch (rotated by a symbolic DataFileSize), K=2-3 batch calls over {Put,Delete,Get}, pool of 2 symbolic keys, value lengths {0,1,20}, overflow flush mid-batch; plus: skip-list (pool of 3 keys), mmap, multi-shard, configuration as a choice point",
			"thorough": "K=3-4 batch calls, pool 2-3 keys of 1-2 bytes, every IndexType, overflow flushes, Sync batch on mmap",
		},
		Outside: "batches longer than K calls; I/O errors; concurrent users of one Batch object; batches with more than a handful of operations (a staging-table defect beyond 65536 staged records, seeded change S123, is outside the bound)",
		Stubs:   stubsCommon,
	})
}

func init() {
	register(&CheckDef{
		ID:    "C02",
		Title: "Clean restart preserves the exact key-value mapping, under any configuration",
		Reach: []string{"done", "rotated", "restarted", "restarted-twice", "batch-committed", "merged", "many-files"},
		Jobs: func(tier string) []JobSpec {
			var js []JobSpec
			add := func(name string, params map[string]int64) {
				js = append(js, JobSpec{Name: name, Harness: "root", Func: "verifHarnessC02", Params: params, Scale: scaleDF(32)})
			}
			base := p("pool", 2, "klen", 1, "vlens", 3, "vbig", 25)
			if tier == "quick" {
				// every file end offset: one put of a value whose length the solver ranges over a whole block
				add("end-offsets-std", merge(base, p("k", 1, "ops", opPut, "vlens", 4, "vbig2", -40, "index", 3, "shards", 1)))
				add("end-offsets-mmap", merge(base, p("k", 1, "ops", opPut, "vlens", 4, "vbig2", -40, "index", 3, "shards", 1, "io", 1, "r_io", 1)))
				add("hashmap-to-btree-k3", merge(base, p("k", 3, "ops", opPut|opDelete, "index", 3, "shards", 1, "r_index", 1, "r_shards", 2, "dfs_lo", 40, "dfs_hi", 150, "r_dfs_lo", 20, "r_dfs_hi", 60)))
				add("skiplist-to-hashmap-k2-k2", merge(base, p("k", 2, "k2", 2, "ops", opPut|opDelete, "vlens", 2, "index", 2, "shards", 2, "r_index", 3, "r_shards", 1, "dfs_lo", 40, "dfs_hi", 100)))
				add("batch-k2", merge(base, p("k", 2, "k2", 0, "ops", opPut|opBatch, "bmax", 2, "vlens", 2, "index", 3, "shards", 1, "r_index", 1)))
				add("batch-k1-k1", merge(base, p("k", 1, "k2", 1, "ops", opBatch, "bmax", 2, "vlens", 2, "index", 3, "shards", 1, "r_index", 2, "dfs_lo", 100, "dfs_hi", 180)))
				// batch, plain write, batch: sfcollide: every later batch either shares the previous time-based id (same millisecond) or gets the next one
				add("batch-put-batch-k3", merge(base, p("k", 3, "k2", 0, "ops", opPut|opDelete|opBatch, "bmax", 1, "vlens", 1, "index", 3, "shards", 1, "sfcollide", 1)))
				add("long-keys-batch-k2", merge(base, p("ckeys", 6, "k", 2, "k2", 0, "ops", opPut|opDelete|opBatch, "bmax", 1, "vlens", 1, "index", 1, "shards", 2, "r_index", 2, "dfs_lo", 200, "dfs_hi", 200)))
				add("xxhash-collision-keys-batch-k2", merge(base, p("ckeys", 5, "k", 2, "k2", 0, "ops", opDelete|opBatch, "bmax", 2, "vlens", 1, "index", 3, "shards", 16, "r_shards", 3)))
				add("mmap-to-std-k2-k1", merge(base, p("k", 2, "k2", 1, "ops", opPut|opDelete, "index", 3, "shards", 1, "io", 1, "r_io", 1)))
				add("std-to-mmap-k2-k1", merge(base, p("k", 2, "k2", 1, "ops", opPut|opDelete, "index", 3, "shards", 1, "io", 0, "r_io", 2)))
				add("merge-k3", merge(base, p("k", 3, "k2", 1, "ops", opPut|opDelete|opMerge, "vlens", 2, "index", 1, "shards", 1)))
				add("two-spellings-merge-k2-k2", merge(base, p("spelling", 1, "k", 2, "k2", 2, "ops", opPut|opDelete|opMerge, "vlens", 1, "index", 3, "shards", 1)))
				add("directory-name-with-pattern-characters-k2-k1", merge(base, p("spelling", 2, "k", 2, "k2", 1, "ops", opPut|opDelete|opMerge, "vlens", 1, "index", 3, "shards", 1, "dfs_lo", 40, "dfs_hi", 40)))
				// 12 data files (ids 0..11) before the history: file-name parsing, id ordering, two-digit ids
				add("twelve-files-k2-k1", merge(base, p("fill", 12, "k", 2, "k2", 1, "ops", opPut|opDelete, "vlens", 1, "index", 3, "shards", 1, "dfs_lo", 20, "dfs_hi", 20)))
				add("cfgsweep-k2", merge(base, p("cfgsweep", 2, "k", 2, "k2", 0, "ops", opPut|opDelete|opBatch, "bmax", 1, "vlens", 1, "r_index", 2, "r_shards", 2, "dfs_lo", 40, "dfs_hi", 40)))
				// value lengths where the uvarint length field of the record header changes width
				add("varint-width-values-k2", merge(base, p("k", 2, "ops", opPut|opDelete, "vlens", 5, "vbig", 127, "vbig2", 128, "vbig3", 129, "index", 3, "shards", 1, "r_io", 2)))
				add("btree-crowd70-k1-k1", merge(base, p("crowd", 70, "k", 1, "k2", 1, "ops", opPut|opDelete, "vlens", 1, "index", 1, "shards", 1, "r_index", 2, "r_shards", 3)))
			} else {
				add("end-offsets-std", merge(base, p("k", 1, "ops", opPut, "vlens", 4, "vbig2", -60, "index", 3, "shards", 1)))
				add("end-offsets-mmap", merge(base, p("k", 1, "ops", opPut, "vlens", 4, "vbig2", -60, "index", 3, "shards", 1, "io", 1, "r_io", 1)))
				for w := 1; w <= 3; w++ {
					for r := 1; r <= 3; r++ {
						add(fmt.Sprintf("%s-to-%s-k3-k1", idxName[w], idxName[r]), merge(base, p("k", 3, "k2", 1, "ops", opPut|opDelete, "index", w, "shards", 2, "r_index", r, "r_shards", 3, "dfs_lo", 40, "dfs_hi", 150, "r_dfs_lo", 20, "r_dfs_hi", 60)))
					}
				}
				add("batch-k3-k1", merge(base, p("k", 3, "k2", 1, "ops", opPut|opDelete|opBatch, "bmax", 2, "vlens", 2, "index", 3, "shards", 1, "r_index", 1, "dfs_lo", 60, "dfs_hi", 200)))
				add("mmap-to-std-k3-k1", merge(base, p("k", 3, "k2", 1, "ops", opPut|opDelete|opBatch, "bmax", 1, "index", 3, "shards", 1, "io", 1, "r_io", 1)))
				add("std-to-mmap-k3-k1", merge(base, p("k", 3, "k2", 1, "ops", opPut|opDelete|opBatch, "bmax", 1, "index", 3, "shards", 1, "io", 0, "r_io", 2)))
				add("merge-k3-k2", merge(base, p("k", 3, "k2", 2, "ops", opPut|opDelete|opMerge|opBatch, "bmax", 1, "vlens", 2, "index", 1, "shards", 1, "dfs_lo", 60, "dfs_hi", 150)))
				add("cfgsweep-k2-k1", merge(base, p("cfgsweep", 1, "k", 2, "k2", 1, "ops", opPut|opDelete|opBatch, "bmax", 1, "vlens", 1, "r_index", 2, "r_shards", 2, "dfs_lo", 40, "dfs_hi", 40)))
				js = append(js, JobSpec{Name: "real-geometry-block-boundary-restart-k2-k1", Harness: "root", Func: "verifHarnessC02", Params: merge(base, p("k", 2, "k2", 1, "ops", opPut|opDelete, "index", 3, "shards", 1, "vlens", 1, "vwin_lo", 32768-30, "vwin_hi", 32768-8, "sparse", 1, "r_io", 2)), Scale: map[string]string{"fio/mmap.go:blockSize": "262144"}, ConcCap: 256, PageSize: 4096})
			}
			js = append(js, JobSpec{Name: "witness", Harness: "root", Func: "verifHarnessC02", Params: merge(base, p("k", 1, "k2", 1, "ops", opPut, "index", 3, "shards", 1, "witness", 1)), Scale: scaleDF(32), Witness: true})
			return js
		},
		Assumptions: []string{"blockSize scaled to 32 (Level 1), mmap granule 128", "I/O never fails", "no foreign files in the directory"},
		Bounds: map[string]string{
			"quick":    "K=1..3 ops + restart (+K2<=2 ops + second restart); every end offset of a one-record file over 40 value lengths (std and mmap); writer/reader pairs over index type, shard count, I/O type, DataFileSize (symbolic, reader smaller than existing files); batches of <=2 ops; merge; plus: 12 data files before the history (ids 0..11); configuration as a choice point; value lengths 127/128/129 (uvarint width change)",
			"thorough": "all 9 writer/reader index pairs at K=3+1, 60 value lengths for end offsets, batches and merges mixed in",
		},
		Outside: "more than two restarts; histories longer than K+K2; real 32 KiB geometry; foreign files",
		Stubs:   stubsCommon,
	})
}

func init() {
	register(&CheckDef{
		ID:    "C10",
		Title: "Iterators, ListKeys and Fold enumerate a sorted, complete, stable snapshot",
		Reach: []string{"done", "seek", "rewind-later", "two-or-more", "late-write"},
		Jobs: func(tier string) []JobSpec {
			var js []JobSpec
			add := func(name string, params map[string]int64, maxPaths int) {
				js = append(js, JobSpec{Name: name, Harness: "root", Func: "verifHarnessC10", Params: params, Scale: scaleDF(32), MaxPaths: maxPaths})
			}
			if tier == "quick" {
				for idx := 1; idx <= 3; idx++ {
					calls := 2
					if idx == 3 {
						calls = 3
					}
					add(fmt.Sprintf("%s-s2-fwd", idxName[idx]), p("calls", calls, "pool", 3, "klen", 1, "index", idx, "shards", 2, "prefix", 0, "latewrites", 0), 0)
				}
				add("btree-s2-rev-late", p("calls", 3, "pool", 2, "klen", 1, "index", 1, "shards", 2, "reverse", 1, "latewrites", 1), 0)
				add("hashmap-s3-prefix", p("calls", 2, "pool", 2, "klen", 2, "index", 3, "shards", 3, "prefix", 1), 0)
				add("skiplist-s1-rev", p("calls", 3, "pool", 3, "klen", 1, "index", 2, "shards", 1, "reverse", 1), 0)
				for _, fam := range []int{1, 3, 4} {
					add(fmt.Sprintf("skiplist-s1-keyfamily%d-fwd", fam), p("calls", 3, "ckeys", fam, "index", 2, "shards", 1), 0)
					add(fmt.Sprintf("skiplist-s2-keyfamily%d-rev", fam), p("calls", 3, "ckeys", fam, "index", 2, "shards", 2, "reverse", 1), 0)
				}
				add("btree-s1-keyfamily2-fwd-prefix", p("calls", 3, "ckeys", 2, "index", 1, "shards", 1, "prefix", 1), 0)
				add("btree-s1-crowd70-fwd", p("calls", 2, "pool", 2, "klen", 1, "crowd", 70, "index", 1, "shards", 1), 0)
				add("hashmap-s3-crowd20-rev", p("calls", 2, "pool", 2, "klen", 1, "crowd", 20, "index", 3, "shards", 3, "reverse", 1), 0)
				add("btree-s1-rev-prefix-klen3", p("calls", 2, "pool", 2, "klen", 3, "index", 1, "shards", 1, "reverse", 1, "prefix", 1), 0)
				add("hashmap-s2-fwd-prefix-klen3", p("calls", 2, "pool", 2, "klen", 3, "index", 3, "shards", 2, "reverse", 0, "prefix", 1), 0)
			} else {
				for idx := 1; idx <= 3; idx++ {
					for _, rev := range []int{0, 1} {
						add(fmt.Sprintf("%s-s2-rev%d-c4", idxName[idx], rev), p("calls", 4, "pool", 3, "klen", 1, "index", idx, "shards", 2, "reverse", rev, "latewrites", 1), 0)
						add(fmt.Sprintf("%s-s3-rev%d-prefix", idxName[idx], rev), p("calls", 3, "pool", 2, "klen", 2, "index", idx, "shards", 3, "reverse", rev, "prefix", 1), 0)
					}
					add(fmt.Sprintf("%s-s1-pool4", idxName[idx]), p("calls", 3, "pool", 4, "klen", 1, "index", idx, "shards", 1), 0)
				}
			}
			js = append(js, JobSpec{Name: "witness", Harness: "root", Func: "verifHarnessC10", Params: p("calls", 1, "pool", 1, "klen", 1, "index", 3, "shards", 1, "witness", 1), Scale: scaleDF(32), Witness: true})
			return js
		},
		Assumptions: []string{"usage protocol: the first positioning call on a new iterator is Rewind or Seek", "every Seek target lies at or ahead of the cursor in iteration order (the property's own restriction); no Seek on an exhausted iterator",
			"xxhash placement of symbolic keys is an uninterpreted function (any placement, incl. all in one shard)"},
		Bounds: map[string]string{
			"quick":    "pool of 2-3 symbolic keys (1-2 bytes), each absent / present / put-then-deleted; 2-3 calls over {Rewind, Seek(symbolic target), Next}; forward and reverse; optional 1-byte symbolic prefix; one late Put/Delete; every index type; ShardNum 1-3; plus concrete key families (long keys, Seek targets among the pool keys)",
			"thorough": "3-4 calls, pool 3-4, both directions for every index type, prefix with 2-byte keys, late writes",
		},
		Outside: "more than 4 keys / 4 calls; backward seeks (deliberately not claimed); concurrent writers during iteration (C09)",
		Stubs:   stubsCommon,
	})
}

func init() {
	register(&CheckDef{
		ID:    "C14",
		Title: "Behaviour is independent of index type, shard count, I/O type and limits",
		Reach: []string{"done", "files-compared", "batch", "restarted", "spanning-iterator", "seek-positioned", "closed-handles-compared"},
		Jobs: func(tier string) []JobSpec {
			var js []JobSpec
			add := func(name string, params map[string]int64) {
				js = append(js, JobSpec{Name: name, Harness: "root", Func: "verifHarnessC14", Params: params, Scale: scaleDF(32)})
			}
			base := p("pool", 2, "klen", 1, "vlens", 3, "vbig", 25)
			js = append(js, JobSpec{Name: "nextPowerOfTwo-all-64-bit", Harness: "index", Func: "verifHarnessC14Pow2", Params: p(), Scale: scaleDF(32), CrossCheck: true})
			if tier == "quick" {
				add("hashmap-vs-btree", merge(base, p("k", 3, "ops", opPut|opDelete, "index", 3, "shards", 1, "b_index", 1, "b_shards", 2, "cmpfiles", 1, "iterspan", 1, "vlens", 2)))
				add("btree-vs-skiplist", merge(base, p("k", 3, "ops", opPut|opDelete, "index", 1, "shards", 2, "b_index", 2, "b_shards", 3, "cmpfiles", 1, "iterspan", 1, "vlens", 2)))
				add("std-vs-mmap", merge(base, p("k", 3, "ops", opPut|opDelete|opRestart, "index", 3, "shards", 1, "b_io", 2, "vlens", 2)))
				// values long enough that the log crosses the (scaled, 128-byte) mmap granule within the history
				add("std-vs-mmap-granule-crossing", merge(base, p("k", 3, "ops", opPut|opRestart, "index", 3, "shards", 1, "b_io", 2, "vlens", 3, "vbig", 70)))
				add("dfs-and-sync", merge(base, p("k", 3, "ops", opPut|opDelete, "index", 3, "shards", 1, "dfs_lo", 40, "dfs_hi", 120, "b_dfs_lo", 40, "b_dfs_hi", 120, "b_sync", 2, "vlens", 2)))
				add("shards-16-vs-5000-conckeys", merge(base, p("k", 2, "ops", opPut|opDelete, "conckeys", 1, "index", 3, "shards", 16, "b_shards", 5000, "b_index", 1, "cmpfiles", 1)))
				add("batch-hashmap-vs-skiplist", merge(base, p("k", 2, "ops", opPut|opBatch, "vlens", 2, "index", 3, "shards", 1, "b_index", 2)))
			} else {
				for a := 1; a <= 3; a++ {
					for b := a + 1; b <= 3; b++ {
						add(fmt.Sprintf("%s-vs-%s-k4", idxName[a], idxName[b]), merge(base, p("k", 4, "ops", opPut|opDelete, "index", a, "shards", 1, "b_index", b, "b_shards", 3, "iterspan", 1, "vlens", 2, "cmpfiles", 1)))
						add(fmt.Sprintf("%s-vs-%s-k3-restart", idxName[a], idxName[b]), merge(base, p("k", 3, "ops", opPut|opDelete|opRestart, "index", a, "shards", 1, "b_index", b, "b_shards", 3)))
					}
				}
				add("std-vs-mmap-k4", merge(base, p("k", 4, "ops", opPut|opDelete|opRestart, "index", 3, "shards", 1, "b_io", 2)))
				add("dfs-and-sync-k4", merge(base, p("k", 4, "ops", opPut|opDelete, "index", 3, "shards", 1, "dfs_lo", 40, "dfs_hi", 150, "b_dfs_lo", 40, "b_dfs_hi", 150, "b_sync", 3, "vlens", 2)))
				add("shards-1024-vs-5000-conckeys", merge(base, p("k", 4, "ops", opPut|opDelete|opRestart, "conckeys", 1, "index", 3, "shards", 1024, "b_shards", 5000, "b_index", 2)))
				add("shards-16-vs-1-conckeys", merge(base, p("k", 4, "ops", opPut|opDelete|opRestart, "conckeys", 1, "index", 1, "shards", 16, "b_shards", 1, "b_index", 3)))
				add("batch-k3", merge(base, p("k", 3, "ops", opPut|opDelete|opBatch, "vlens", 2, "index", 3, "shards", 1, "b_index", 1, "b_shards", 2)))
			}
			// three keys over one vs two shards: the merged iteration (heap of per-shard iterators) has to agree
			// with the single-shard one, including after a partial pass + Rewind and after Seek
			add("three-keys-1-vs-2-shards", merge(base, p("pool", 3, "k", 3, "ops", opPut, "vlens", 1, "index", 1, "shards", 1, "b_index", 1, "b_shards", 2)))
			add("closed-handles-btree-vs-hashmap", merge(base, p("k", 2, "ops", opPut|opDelete, "vlens", 1, "index", 1, "shards", 2, "b_index", 3, "b_shards", 1, "afterclose", 1)))
			add("closed-handles-skiplist-vs-btree", merge(base, p("k", 2, "ops", opPut|opDelete, "vlens", 1, "index", 2, "shards", 1, "b_index", 1, "b_shards", 3, "afterclose", 1)))
			add("skiplist-vs-btree-keyfamily1", merge(base, p("ckeys", 1, "k", 3, "ops", opPut|opDelete, "vlens", 1, "index", 2, "shards", 1, "b_index", 1, "b_shards", 2)))
			add("skiplist-vs-hashmap-keyfamily4", merge(base, p("ckeys", 4, "k", 3, "ops", opPut|opDelete, "vlens", 1, "index", 2, "shards", 2, "b_index", 3, "b_shards", 1)))
			add("hashmap-vs-btree-xxhash-collision-keys-batch", merge(base, p("ckeys", 5, "k", 2, "ops", opPut|opDelete|opBatch, "vlens", 1, "index", 3, "shards", 16, "b_index", 1, "b_shards", 1)))
			add("skiplist-vs-hashmap-long-keys", merge(base, p("ckeys", 6, "k", 3, "ops", opPut|opDelete, "vlens", 1, "index", 2, "shards", 1, "b_index", 3, "b_shards", 3)))
			if tier != "quick" {
				add("three-keys-skiplist-2-vs-hashmap-3-shards", merge(base, p("pool", 3, "k", 4, "ops", opPut|opDelete, "vlens", 1, "index", 2, "shards", 2, "b_index", 3, "b_shards", 3)))
			}
			js = append(js, JobSpec{Name: "witness", Harness: "root", Func: "verifHarnessC14", Params: merge(base, p("k", 1, "ops", opPut, "index", 3, "shards", 1, "b_index", 1, "witness", 1)), Scale: scaleDF(32), Witness: true})
			return js
		},
		Assumptions: []string{"blockSize scaled to 32 (Level 1)", "I/O never fails", "batch ids are time based: data-file bytes are compared only for batch-free histories under one DataFileSize"},
		Bounds: map[string]string{
			"quick":    "lock-step pairs: hashmap/btree, btree/skiplist, std/mmap, two symbolic DataFileSizes with different sync strategies, ShardNum 16 vs 5000 on concrete keys (real xxhash), batches; K=2-3 ops; nextPowerOfTwo for all 64-bit inputs (unbounded bit-vector query); plus: three keys over 1 vs 2 shards; iterators compared after a partial pass + Rewind and after Rewind + Seek to every pool key; concrete key families (skip list vs B-tree / hash map)",
			"thorough": "all three index pairs at K=4 with restarts, std/mmap, dfs/sync pairs, ShardNum {1,16,1024,5000} on concrete keys, batches at K=3",
		},
		Outside: "sequences longer than K; configurations not listed; I/O errors",
		Stubs:   stubsCommon,
	})
	register(&CheckDef{
		ID:    "C15",
		Title: "Caller buffers are never retained or modified; returned values never change",
		Reach: []string{"done", "batch", "get-kept"},
		Jobs: func(tier string) []JobSpec {
			var js []JobSpec
			add := func(name string, params map[string]int64) {
				js = append(js, JobSpec{Name: name, Harness: "root", Func: "verifHarnessC15", Params: params, Scale: scaleDF(32)})
			}
			if tier == "quick" {
				for idx := 1; idx <= 3; idx++ {
					add(fmt.Sprintf("%s-k2", idxName[idx]), p("k", 2, "index", idx, "shards", 1))
				}
				add("hashmap-k3-s2", p("k", 3, "index", 3, "shards", 2, "nobatch", 1))
				add("hashmap-k3-multichunk-values", p("k", 3, "index", 3, "shards", 1, "nobatch", 1, "bigv", 40))
				add("hashmap-k2-multichunk-values-batch", p("k", 2, "index", 3, "shards", 1, "bigv", 40))
				add("cfgsweep-k2", p("cfgsweep", 2, "k", 2, "nobatch", 1))
			} else {
				for idx := 1; idx <= 3; idx++ {
					add(fmt.Sprintf("%s-k3", idxName[idx]), p("k", 3, "index", idx, "shards", 2))
				}
				add("btree-k3-multichunk-values-mmap", p("k", 3, "index", 1, "shards", 1, "bigv", 70, "io", 1))
				add("skiplist-k3-multichunk-values", p("k", 3, "index", 2, "shards", 2, "bigv", 40, "nobatch", 1))
			}
			js = append(js, JobSpec{Name: "witness", Harness: "root", Func: "verifHarnessC15", Params: p("k", 1, "index", 3, "shards", 1, "witness", 1), Scale: scaleDF(32), Witness: true})
			return js
		},
		Assumptions: []string{"sync.Pool modelled as LIFO always-reuse (the adversarial case for aliasing)", "append growth follows the gc runtime's growslice policy (matters for which appends alias)"},
		Bounds: map[string]string{
			"quick":    "K=2 calls (K=3 without batches) over {Put, Delete, Get, batch(Put,Put same key[,Delete])} with ONE reused 2-byte key buffer and ONE reused 3-byte value buffer, scribbled with fresh symbolic bytes after every return; every index type; plus: a value buffer longer than a (scaled) block (multi-chunk values, with and without batches); configuration as a choice point",
			"thorough": "K=3 with batches, every index type, 2 shards",
		},
		Outside: "sequences longer than K; buffers longer than 3 bytes; sync.Pool dropping items",
		Stubs:   stubsCommon,
	})
	register(&CheckDef{
		ID:    "C17",
		Title: "Stat and space accounting are exact, and data files respect the size limit",
		Reach: []string{"done", "oversized-file", "batch-committed", "restarted", "merged", "many-files", "merge-refused-by-ratio", "merge-allowed-by-ratio", "recovered-stat-checked"},
		Jobs: func(tier string) []JobSpec {
			var js []JobSpec
			add := func(name string, params map[string]int64) {
				js = append(js, JobSpec{Name: name, Harness: "root", Func: "verifHarnessC17", Params: params, Scale: scaleDF(32)})
			}
			base := p("pool", 2, "klen", 1, "vlens", 2, "index", 3, "shards", 1)
			if tier == "quick" {
				add("plain-k3", merge(base, p("k", 3, "ops", opPut|opDelete|opRestart, "vlens", 3, "vbig", 25, "dfs_lo", 40, "dfs_hi", 160)))
				add("batch-k2", merge(base, p("k", 2, "ops", opPut|opDelete|opBatch, "bmax", 2, "dfs_lo", 60, "dfs_hi", 160)))
				add("merge-k3", merge(base, p("k", 3, "ops", opPut|opDelete|opMerge, "dfs_lo", 60, "dfs_hi", 160)))
				add("merge-restart-k3-btree", merge(base, p("k", 3, "ops", opPut|opDelete|opMerge|opRestart, "index", 1, "dfs_lo", 60, "dfs_hi", 100, "vlens", 1)))
				add("skiplist-s2-mmap-k2", merge(base, p("k", 2, "ops", opPut|opDelete|opRestart, "index", 2, "shards", 2, "io", 1, "dfs_lo", 60, "dfs_hi", 100)))
				add("twelve-files-k2", merge(base, p("fill", 12, "k", 2, "ops", opPut|opDelete|opMerge|opRestart, "vlens", 1, "dfs_lo", 20, "dfs_hi", 20)))
				add("cfgsweep-k2", merge(base, p("cfgsweep", 2, "k", 2, "ops", opPut|opDelete|opRestart, "vlens", 1, "dfs_lo", 40, "dfs_hi", 40)))
				add("batch-put-delete-cycles-then-filler", merge(base, p("k", 1, "ops", opBatch, "bcycles", 3, "bmax", 1, "vlens", 4, "vbig", 25, "vbig2", -60, "dfs_lo", 100, "dfs_hi", 200)))
				// a batch larger than DataFileSize whose flush is forced by the re-Put of an already staged key, with more
				// operations behind it: the staged-size bookkeeping of the re-staged record decides the next file's size (S148)
				add("batch-overflow-by-restaged-key-bmax3", merge(base, p("k", 1, "ops", opBatch, "bmax", 3, "vlens", 5, "vbig", 25, "vbig2", 60, "vbig3", 90, "dfs_lo", 150, "dfs_hi", 200)))
				// Stat on a database RECOVERED from a crash (interrupted batches, torn tails): the crash harness with C17's oracle
				js = append(js, JobSpec{Name: "stat-after-crashed-batch", Harness: "root", Func: "verifHarnessCrash", Params: merge(base, p("prop", 17, "statcheck", 1, "preput", 1, "k", 1, "ops", opBatch, "bmax", 3, "vlens", 1, "dfs_lo", 120, "dfs_hi", 160, "after", 1)), Scale: scaleDF(32), ReplayRestore: true})
				js = append(js, JobSpec{Name: "stat-after-power-loss", Harness: "root", Func: "verifHarnessCrash", Params: merge(base, p("prop", 17, "statcheck", 1, "powerloss", 1, "k", 2, "ops", opPut|opDelete|opSync, "vlens", 2, "dfs_lo", 60, "dfs_hi", 100, "after", 1)), Scale: scaleDF(32), ReplayRestore: true})
				// 40-byte keys: three committed keys, then one batch of up to 3 puts/deletes of them
				add("long-keys-batch-of-3", merge(base, p("ckeys", 6, "fill", 3, "k", 1, "ops", opBatch, "bmax", 3, "vlens", 1, "dfs_lo", 200, "dfs_hi", 420)))
				// merge-ratio policy with the 256 MiB floor scaled to 20 bytes and DataFileMergeRatio 0.5
				js = append(js, JobSpec{Name: "merge-ratio-policy-k3", Harness: "root", Func: "verifHarnessC17", Params: merge(base, p("k", 3, "ops", opPut|opDelete|opMerge, "vlens", 1, "ratio_pct", 50, "ratio_floor", 20, "dfs_lo", 60, "dfs_hi", 60)),
					Scale: map[string]string{"datafile/log_record.go:blockSize": "32", "fio/mmap.go:blockSize": "128", "value:268435456": "20"}})
			} else {
				add("plain-k4", merge(base, p("k", 4, "ops", opPut|opDelete|opRestart, "vlens", 3, "vbig", 25, "dfs_lo", 40, "dfs_hi", 160)))
				add("batch-k3", merge(base, p("k", 3, "ops", opPut|opDelete|opBatch|opRestart, "bmax", 2, "dfs_lo", 60, "dfs_hi", 160)))
				add("merge-k4", merge(base, p("k", 4, "ops", opPut|opDelete|opMerge|opRestart, "dfs_lo", 60, "dfs_hi", 160)))
				add("btree-mmap-k3", merge(base, p("k", 3, "ops", opPut|opDelete|opBatch, "bmax", 1, "index", 1, "shards", 2, "io", 1, "dfs_lo", 60, "dfs_hi", 160)))
			}
			js = append(js, JobSpec{Name: "witness", Harness: "root", Func: "verifHarnessC17", Params: merge(base, p("k", 1, "ops", opPut, "witness", 1)), Scale: scaleDF(32), Witness: true})
			return js
		},
		Assumptions: []string{"blockSize scaled to 32 (Level 1)", "statfs reports 16 GiB available (disk-full is outside the claim)", "live bytes = sizes held by the live index entries (in-package access)"},
		Bounds: map[string]string{
			"quick":    "K=2-3 ops over {Put,Delete,Restart,batch<=2,Merge}, pool 2 keys, value lengths {0,1,25}, DataFileSize symbolic in [40,160]; Stat checked after every step and after a final restart; plus: skip-list/mmap/multi-shard; Merge+restart; 12 files; N staged Put+Delete cycles inside a batch before a filler near DataFileSize; the merge-ratio policy (256 MiB floor scaled to 20 bytes, ratio 0.5) against Stat; one batch of <=3 operations with value lengths {0,1,25,60,90} and DataFileSize in [150,200] (mid-batch flush forced by a re-staged key; maxFinRecord=70 is not scaled)",
			"thorough": "K=3-4 with restarts mixed in, mmap",
		},
		Outside: "histories longer than K; the inductive counter step at real geometry (not built)",
		Stubs:   stubsCommon,
	})
}

func init() {
	register(&CheckDef{
		ID:    "C06",
		Title: "Merge preserves every key's value and actually reclaims the garbage",
		Reach: []string{"done", "merge-done", "merged-record-checked", "fewer-files-out", "batch-committed", "second-generation", "many-files", "adopted-under-other-configuration", "other-spelling", "second-merge-over-leftover-directory"},
		Jobs: func(tier string) []JobSpec {
			var js []JobSpec
			add := func(name string, params map[string]int64) {
				js = append(js, JobSpec{Name: name, Harness: "root", Func: "verifHarnessC06", Params: params, Scale: scaleDF(32), ReplayCount: int(params["permute"]) * 30})
			}
			base := p("pool", 2, "klen", 1, "vlens", 2, "index", 3, "shards", 1, "dfs_lo", 60, "dfs_hi", 160)
			if tier == "quick" {
				add("plain-k3-post", merge(base, p("k", 3, "ops", opPut|opDelete, "post", 1)))
				add("plain-k3-permute-big", merge(base, p("k", 3, "ops", opPut|opDelete, "vlens", 3, "vbig", 25, "permute", 1)))
				add("batch-k2", merge(base, p("k", 2, "ops", opPut|opBatch, "bmax", 2)))
				add("btree-mmap-k2", merge(base, p("k", 2, "ops", opPut|opDelete, "index", 1, "io", 1, "post", 1)))
				add("second-generation-k2", merge(base, p("premerge", 2, "k", 2, "ops", opPut|opDelete, "vlens", 1)))
				add("merge-merge-without-restart-k2", merge(base, p("premerge", 2, "prestay", 1, "k", 2, "ops", opPut|opDelete, "vlens", 1)))
				add("adopted-under-other-configuration-k2", merge(base, p("k", 2, "ops", opPut|opDelete, "vlens", 1, "post", 1, "r_io", 2, "r_index", 2, "r_shards", 3, "r_dfs_lo", 20, "r_dfs_hi", 60)))
				add("adopted-under-other-spelling-k2", merge(base, p("spelling", 1, "k", 2, "ops", opPut|opDelete, "vlens", 1, "post", 1)))
				add("second-generation-other-spelling-k2", merge(base, p("spelling", 1, "premerge", 2, "k", 2, "ops", opPut|opDelete, "vlens", 1)))
				add("skiplist-s2-k2", merge(base, p("k", 2, "ops", opPut|opDelete, "index", 2, "shards", 2, "post", 1)))
				add("twelve-files-k1", merge(base, p("fill", 12, "k", 1, "ops", opPut|opDelete, "vlens", 1, "dfs_lo", 20, "dfs_hi", 20, "post", 1)))
				add("cfgsweep-k2", merge(base, p("cfgsweep", 2, "k", 2, "ops", opPut|opDelete, "vlens", 1, "dfs_lo", 40, "dfs_hi", 40, "post", 1)))
			} else {
				add("plain-k4-post", merge(base, p("k", 4, "ops", opPut|opDelete, "post", 1)))
				add("plain-k4-permute-big", merge(base, p("k", 4, "ops", opPut|opDelete, "vlens", 3, "vbig", 25, "permute", 1)))
				add("batch-k3-post", merge(base, p("k", 3, "ops", opPut|opDelete|opBatch, "bmax", 2, "post", 1)))
				add("two-merges-k3", merge(base, p("k", 3, "ops", opPut|opDelete|opMerge|opRestart, "post", 1)))
				add("skiplist-mmap-k3", merge(base, p("k", 3, "ops", opPut|opDelete, "index", 2, "io", 1, "post", 1)))
				add("second-generation-k3-post", merge(base, p("premerge", 2, "k", 3, "ops", opPut|opDelete, "post", 1)))
				add("adopted-under-other-configuration-k3", merge(base, p("k", 3, "ops", opPut|opDelete, "post", 1, "r_io", 2, "r_index", 2, "r_shards", 3, "r_dfs_lo", 20, "r_dfs_hi", 60)))
				add("mmap-merge-adopted-by-std-btree-k3", merge(base, p("k", 3, "ops", opPut|opDelete, "io", 1, "post", 1, "r_io", 1, "r_index", 1, "r_shards", 2)))
			}
			js = append(js, JobSpec{Name: "witness", Harness: "root", Func: "verifHarnessC06", Params: merge(base, p("k", 1, "ops", opPut, "witness", 1)), Scale: scaleDF(32), Witness: true})
			return js
		},
		Assumptions: []string{"blockSize scaled to 32 (Level 1)", "I/O never fails", "statfs reports 16 GiB available", "sequential: the racing writer of the property is covered by C08/C09's schedule harnesses only"},
		Bounds: map[string]string{
			"quick":    "K=2-3 ops (Put/Delete/batch<=2) with DataFileSize symbolic in [60,160] (so the input has 1-4 files), Merge, optional post-merge Put/Delete, adopting restart, second restart; every iteration order of the older-files map; std and mmap; plus: a SECOND merge generation (history, Merge, adopting restart, history, Merge ...), skip-list/multi-shard, 12 input files, configuration as a choice point",
			"thorough": "K=3-4, a second merge and restarts inside the history",
		},
		Outside: "histories longer than K; disk-full; background merge ticker; merge racing with writers (see C08/C09)",
		Stubs:   stubsCommon,
	})
}

const (
	syncNo = iota
	syncAlways
	syncThreshold
)

func init() {
	register(&CheckDef{
		ID:    "C03",
		Title: "Crash recovery exposes a prefix of the acknowledged history",
		Reach: []string{"done", "crashed-mid-workload", "power-loss", "unsynced-acked", "batch", "torn-tail", "second-crash-after-recovery", "recovered-with-other-backend"},
		Jobs: func(tier string) []JobSpec {
			var js []JobSpec
			add := func(name string, params map[string]int64) {
				js = append(js, JobSpec{Name: name, Harness: "root", Func: "verifHarnessCrash", Params: params, Scale: scaleDF(32), ReplayRestore: true, ConcCap: 200})
			}
			base := p("pool", 2, "klen", 1, "vlens", 2, "index", 3, "shards", 1, "powerloss", 1)
			if tier == "quick" {
				add("nosync-k2", merge(base, p("k", 2, "ops", opPut|opDelete|opSync, "after", 1)))
				add("always-k2-rot", merge(base, p("k", 2, "ops", opPut|opDelete, "sync", syncAlways, "dfs_lo", 60, "dfs_hi", 100)))
				add("threshold-k3", merge(base, p("k", 3, "ops", opPut|opDelete, "sync", syncThreshold, "vlens", 1)))
				add("batch-k1", merge(base, p("k", 1, "ops", opBatch, "vlens", 1)))
				add("always-batch-rot-k3", merge(base, p("k", 3, "ops", opPut|opBatch, "bmax", 1, "vlens", 1, "sync", syncAlways, "dfs_lo", 130, "dfs_hi", 160)))
				add("batch-overflow-bmax3", merge(base, p("preput", 1, "k", 1, "ops", opBatch, "bmax", 3, "vlens", 1, "dfs_lo", 120, "dfs_hi", 160, "powerloss", 0, "after", 1)))
				// power loss under mmap (the unsynced tail of a mapped file is cut), and a SECOND crash after the
				// recovered database has written on
				add("mmap-powerloss-k2", merge(base, p("k", 2, "ops", opPut|opDelete|opSync, "io", 1, "after", 1, "dfs_lo", 60, "dfs_hi", 100)))
				// REAL 32 KiB blocks, mmap granule 8192, 4096-byte pages: a 5000-byte value that is zero except for three
				// symbolic bytes (its last pages look like never-written space), process death at every point
				js = append(js, JobSpec{Name: "mmap-real-pages-zero-filled-value-process-death", Harness: "root", Func: "verifHarnessCrash", Params: merge(base, p("preput", 1, "k", 1, "ops", opPut, "io", 1, "powerloss", 0, "vlens", 3, "vbig", 5000, "sparse", 2, "after", 1)), Scale: map[string]string{"fio/mmap.go:blockSize": "8192"}, PageSize: 4096, ReplayRestore: true})
				// crash under one back-end, recovery (and further life) under the other
				add("std-crash-recover-mmap-k2", merge(base, p("k", 2, "ops", opPut|opDelete|opSync, "io", 0, "r_io", 2, "after", 1, "dfs_lo", 60, "dfs_hi", 100)))
				add("mmap-crash-recover-std-k2", merge(base, p("k", 2, "ops", opPut|opDelete|opSync, "io", 1, "r_io", 1, "after", 1, "dfs_lo", 60, "dfs_hi", 100)))
				add("mmap-powerloss-multiblock-then-crash-again", merge(base, p("k", 2, "ops", opPut|opSync, "io", 1, "vlens", 4, "vbig", 40, "vbig2", 20, "after", 1, "aftercrash", 1, "afterval", 1)))
				add("std-powerloss-then-crash-again", merge(base, p("k", 2, "ops", opPut|opDelete, "vlens", 4, "vbig", 40, "vbig2", 20, "after", 1, "aftercrash", 1, "afterval", 1)))
				add("mmap-process-death-k2", merge(base, p("k", 2, "ops", opPut|opDelete, "io", 1, "powerloss", 0, "after", 1, "dfs_lo", 60, "dfs_hi", 100)))
				add("btree-s2-nosync-k2", merge(base, p("k", 2, "ops", opPut|opDelete|opSync, "after", 1, "index", 1, "shards", 2, "vlens", 1)))
				add("skiplist-s3-always-k2", merge(base, p("k", 2, "ops", opPut|opDelete, "sync", syncAlways, "index", 2, "shards", 3, "vlens", 1, "after", 1)))
			} else {
				add("mmap-process-death-k3", merge(base, p("k", 3, "ops", opPut|opDelete|opBatch, "io", 1, "powerloss", 0, "after", 1, "dfs_lo", 60, "dfs_hi", 100)))
				add("nosync-k3", merge(base, p("k", 3, "ops", opPut|opDelete|opSync, "after", 1, "dfs_lo", 60, "dfs_hi", 120)))
				add("always-k3-rot", merge(base, p("k", 3, "ops", opPut|opDelete, "sync", syncAlways, "vlens", 3, "vbig", 25, "dfs_lo", 60, "dfs_hi", 120)))
				add("threshold-k3", merge(base, p("k", 3, "ops", opPut|opDelete|opSync, "sync", syncThreshold)))
				add("batch-k2", merge(base, p("k", 2, "ops", opPut|opDelete|opBatch, "vlens", 1, "bsync", 1, "dfs_lo", 120, "dfs_hi", 160)))
				add("std-crash-recover-mmap-multiblock", merge(base, p("k", 2, "ops", opPut|opDelete|opSync, "io", 0, "r_io", 2, "vlens", 3, "vbig", 40, "after", 1, "afterval", 1, "dfs_lo", 60, "dfs_hi", 100)))
				add("mmap-crash-recover-std-multiblock", merge(base, p("k", 2, "ops", opPut|opDelete|opSync, "io", 1, "r_io", 1, "vlens", 3, "vbig", 40, "after", 1, "afterval", 1, "dfs_lo", 60, "dfs_hi", 100)))
				add("cfgsweep-k1", merge(base, p("cfgsweep", 2, "preput", 1, "k", 1, "ops", opPut|opDelete, "vlens", 1, "after", 1, "dfs_lo", 40, "dfs_hi", 40)))
				add("btree-k3", merge(base, p("k", 3, "ops", opPut|opDelete|opSync, "index", 1, "shards", 2, "after", 1)))
			}
			js = append(js, JobSpec{Name: "witness", Harness: "root", Func: "verifHarnessCrash", Params: merge(base, p("k", 1, "ops", opPut, "witness", 1)), Scale: scaleDF(32), Witness: true})
			return js
		},
		Assumptions: []string{"crash points: before every mutating file-system call issued after Open (create, write, sync, close, truncate, rename, remove) and after the last one",
			"power loss keeps a prefix of every file: a solver-chosen length between the last synced length and the current length; no garbage, no reordering; directory operations are durable in issue order",
			"mmap back-end: process death only (the zero-extended files are what recovery sees); loss of unsynced mapped pages on power failure is not modelled",
			"blockSize scaled to 32 (Level 1)"},
		Bounds: map[string]string{
			"quick":    "K=2-3 mutations over {Put,Delete,Sync,batch<=2}, pool of 2 symbolic keys, value lengths {0,1}, SyncStrategy No/Always/Threshold (BytesPerSync symbolic), rotation by symbolic DataFileSize; crash before every FS op; process death and power loss with every tail length; one more Put + clean restart after recovery; plus: B-tree/skip-list and multi-shard jobs; a batch larger than DataFileSize; power loss under mmap (the unsynced tail of the mapped file is cut); a SECOND crash (process death) after the recovered database has written a value of symbolic length class",
			"thorough": "K=3 everywhere, value length 25 (multi-chunk), Sync batches, B-tree",
		},
		Outside: "torn sectors / garbage tails (C12 covers damaged bytes); mmap power loss; crashes during Open itself; I/O errors; a SECOND crash that is a power loss (the crash after recovery is a process death); seeded change S122 lives there",
		Stubs:   stubsCommon,
	})
}

func init() {
	crashAssumptions := []string{"crash points: before every mutating file-system call issued after the first Open (create, write, sync, close, truncate, rename, each unlink of RemoveAll in every order) and after the last one",
		"power loss keeps a prefix of every file: a solver-chosen length between the last synced length and the current length; no garbage; directory operations are durable in issue order",
		"standard I/O only for crash images", "blockSize scaled to 32 (Level 1)"}
	register(&CheckDef{
		ID:    "C04",
		Title: "A batch is all-or-nothing and, once committed, durable",
		Reach: []string{"done", "crashed-mid-workload", "batch", "batch-with-rotation", "power-loss", "sync-batch-required-durable", "merge-finished"},
		Jobs: func(tier string) []JobSpec {
			var js []JobSpec
			add := func(name string, params map[string]int64) {
				js = append(js, JobSpec{Name: name, Harness: "root", Func: "verifHarnessCrash", Params: params, Scale: scaleDF(32), ReplayRestore: true, ConcCap: 300})
			}
			base := p("prop", 4, "pool", 2, "klen", 1, "vlens", 1, "index", 3, "shards", 1, "powerloss", 1)
			if tier == "quick" {
				add("overflow-bmax3", merge(base, p("preput", 1, "k", 1, "ops", opBatch, "bmax", 3, "dfs_lo", 120, "dfs_hi", 160, "powerloss", 0)))
				add("overflow-bmax2-powerloss", merge(base, p("k", 1, "ops", opBatch, "bmax", 2, "dfs_lo", 110, "dfs_hi", 150, "after", 1)))
				add("sync-batch", merge(base, p("k", 1, "ops", opBatch, "bmax", 2, "bsync", 1)))
				add("batch-then-put", merge(base, p("k", 2, "ops", opBatch|opPut, "bmax", 1, "after", 1)))
				add("interrupted-batch-then-batch", merge(base, p("k", 1, "ops", opBatch, "bmax", 2, "after", 1, "afterbatch", 1, "powerloss", 0)))
				add("batch-merge-restart", merge(base, p("k", 1, "ops", opBatch, "bmax", 2, "tailops", opMerge|opRestart, "after", 1, "powerloss", 0)))
				add("skiplist-s2-sync-batch", merge(base, p("k", 1, "preput", 1, "ops", opBatch, "bmax", 2, "bsync", 1, "index", 2, "shards", 2, "after", 1)))
				add("btree-mmap-overflow-bmax2", merge(base, p("k", 1, "ops", opBatch, "bmax", 2, "dfs_lo", 110, "dfs_hi", 150, "after", 1, "powerloss", 0, "io", 1, "index", 1)))
				add("xxhash-collision-keys-bmax2", merge(base, p("ckeys", 5, "preput", 1, "k", 1, "ops", opBatch, "bmax", 2, "after", 1, "powerloss", 0, "dfs_lo", 150, "dfs_hi", 150)))
				add("long-keys-overflow-bmax3", merge(base, p("ckeys", 6, "preput", 1, "k", 1, "ops", opBatch, "bmax", 3, "after", 1, "powerloss", 0, "dfs_lo", 200, "dfs_hi", 330)))
			} else {
				add("overflow-bmax3-pre2", merge(base, p("preput", 2, "k", 1, "ops", opBatch, "bmax", 3, "dfs_lo", 120, "dfs_hi", 170, "after", 1, "powerloss", 0)))
				add("overflow-bmax3-powerloss", merge(base, p("preput", 1, "k", 1, "ops", opBatch, "bmax", 3, "dfs_lo", 120, "dfs_hi", 150, "after", 1)))
				add("sync-batch-bmax3", merge(base, p("preput", 1, "k", 1, "ops", opBatch, "bmax", 3, "bsync", 1, "dfs_lo", 120, "dfs_hi", 160)))
				add("two-batches", merge(base, p("k", 2, "ops", opBatch, "bmax", 2, "after", 1, "afterbatch", 1)))
				add("batch-put-merge-restart", merge(base, p("k", 2, "ops", opBatch|opPut, "bmax", 2, "tailops", opMerge|opRestart, "after", 1, "powerloss", 0, "crash2", 1)))
				add("btree-overflow", merge(base, p("preput", 1, "k", 1, "ops", opBatch, "bmax", 3, "dfs_lo", 100, "dfs_hi", 200, "index", 1, "shards", 2)))
				add("cfgsweep-bmax2", merge(base, p("cfgsweep", 2, "preput", 1, "k", 1, "ops", opBatch, "bmax", 2, "after", 1, "powerloss", 0, "dfs_lo", 40, "dfs_hi", 40)))
			}
			js = append(js, JobSpec{Name: "witness", Harness: "root", Func: "verifHarnessCrash", Params: merge(base, p("k", 1, "ops", opBatch, "bmax", 1, "witness", 1)), Scale: scaleDF(32), Witness: true, ConcCap: 300})
			return js
		},
		Assumptions: crashAssumptions,
		Bounds: map[string]string{
			"quick":    "0-1 plain puts, one batch of 1-3 staged puts/deletes over 2 symbolic keys (repeats included), DataFileSize symbolic in [100,200] so the batch is flushed in pieces across files, BatchOptions.Sync on/off; crash before every FS op of staging and Commit; process death and power loss with every tail length; later Put, Merge, restart; visibility checked live right after Commit; plus: skip-list/multi-shard Sync batch, mmap overflow batch",
			"thorough": "two batches, 2 pre-puts, second crash during recovery, B-tree",
		},
		Outside: "batches of more than 3 staged ops; batch id collisions across processes; I/O errors; mmap crash images",
		Stubs:   stubsCommon,
	})
	register(&CheckDef{
		ID:    "C07",
		Title: "A crash during merge or during merge adoption never loses or resurrects data",
		Reach: []string{"done", "crashed-in-merge", "crashed-in-restart", "crashed-during-recovery", "merge-finished", "merge-after-recovery"},
		Jobs: func(tier string) []JobSpec {
			var js []JobSpec
			add := func(name string, params map[string]int64) {
				js = append(js, JobSpec{Name: name, Harness: "root", Func: "verifHarnessCrash", Params: params, Scale: scaleDF(32), ReplayRestore: true, ReplayCount: int(params["permute"]) * 30})
			}
			base := p("prop", 7, "pool", 2, "klen", 1, "vlens", 1, "index", 3, "shards", 1, "tailops", opMerge|opRestart, "after", 1, "crash2", 1)
			if tier == "quick" {
				add("k2-rot", merge(base, p("k", 2, "ops", opPut|opDelete, "dfs_lo", 60, "dfs_hi", 100)))
				add("k3-nocrash2", merge(base, p("k", 3, "ops", opPut|opDelete, "dfs_lo", 60, "dfs_hi", 130, "crash2", 0)))
				add("k1-batch", merge(base, p("k", 1, "ops", opBatch, "bmax", 2, "dfs_lo", 100, "dfs_hi", 160)))
				add("k3-permute-3files", merge(base, p("k", 3, "ops", opPut|opDelete, "dfs_lo", 60, "dfs_hi", 66, "permute", 1, "crash2", 0)))
				add("k2-crashed-merge-then-merge", merge(base, p("k", 2, "ops", opPut, "dfs_lo", 60, "dfs_hi", 100, "crash2", 0, "aftermerge", 1, "tailops", opMerge)))
				add("k2-btree-s2-mmap", merge(base, p("k", 2, "ops", opPut|opDelete, "dfs_lo", 60, "dfs_hi", 100, "crash2", 0, "index", 1, "shards", 2, "io", 1)))
				add("second-generation-k1", merge(base, p("preput", 2, "premerge", 1, "k", 1, "ops", opPut|opDelete, "dfs_lo", 60, "dfs_hi", 100, "crash2", 0)))
				// a finished merge that was NOT adopted (no restart) followed by another Merge in the same process
				add("merge-merge-without-restart-k2", merge(base, p("preput", 1, "k", 2, "ops", opPut|opDelete|opMerge, "dfs_lo", 60, "dfs_hi", 100, "crash2", 0)))
				// Merge anywhere in the history, writes after it, then the adopting restart (crash armed throughout)
				add("merge-then-writes-then-adoption-k3", merge(base, p("preput", 1, "k", 3, "ops", opPut|opDelete|opMerge, "dfs_lo", 60, "dfs_hi", 100, "crash2", 0, "tailops", opRestart)))
			} else {
				add("k3-rot", merge(base, p("k", 3, "ops", opPut|opDelete, "dfs_lo", 60, "dfs_hi", 130)))
				add("k2-batch", merge(base, p("k", 2, "ops", opPut|opBatch, "bmax", 1, "dfs_lo", 100, "dfs_hi", 150)))
				add("k2-permute", merge(base, p("k", 2, "ops", opPut|opDelete, "vlens", 2, "dfs_lo", 60, "dfs_hi", 100, "permute", 1)))
				add("k2-powerloss", merge(base, p("k", 2, "ops", opPut|opDelete, "dfs_lo", 60, "dfs_hi", 100, "powerloss", 1, "crash2", 0)))
				add("k3-crashed-merge-then-merge", merge(base, p("k", 3, "ops", opPut|opDelete, "dfs_lo", 60, "dfs_hi", 100, "crash2", 0, "aftermerge", 1, "tailops", opMerge)))
				add("k2-crashed-merge-then-merge-crash2", merge(base, p("k", 2, "ops", opPut, "dfs_lo", 60, "dfs_hi", 100, "aftermerge", 1, "tailops", opMerge|opRestart)))
				add("k3-permute-3files-crash2", merge(base, p("k", 3, "ops", opPut|opDelete, "dfs_lo", 60, "dfs_hi", 66, "permute", 1)))
				add("second-generation-k2-crash2", merge(base, p("preput", 2, "premerge", 1, "k", 2, "ops", opPut|opDelete, "dfs_lo", 60, "dfs_hi", 100)))
				// whole lifecycles under crash: Merge and restarts anywhere in the history, then Merge and the adopting restart
				add("lifecycle-k3", merge(base, p("preput", 1, "k", 3, "ops", opPut|opDelete|opMerge|opRestart, "dfs_lo", 60, "dfs_hi", 100, "crash2", 0)))
				add("lifecycle-k2-mmap-btree", merge(base, p("preput", 1, "k", 2, "ops", opPut|opDelete|opMerge|opRestart, "dfs_lo", 60, "dfs_hi", 100, "crash2", 0, "io", 1, "index", 1, "shards", 2)))
				add("cfgsweep-k1", merge(base, p("cfgsweep", 2, "preput", 1, "k", 1, "ops", opPut|opDelete, "dfs_lo", 40, "dfs_hi", 40, "crash2", 0)))
			}
			js = append(js, JobSpec{Name: "witness", Harness: "root", Func: "verifHarnessCrash", Params: merge(base, p("k", 1, "ops", opPut, "witness", 1, "crash2", 0)), Scale: scaleDF(32), Witness: true})
			return js
		},
		Assumptions: crashAssumptions,
		Bounds: map[string]string{
			"quick":    "history of K=1-3 ops (Put/Delete/batch) with DataFileSize symbolic so the merge input has 1-4 files, then Merge, then a restart that adopts it; crash (process death) before every FS op of the history, of Merge (mkdir, create, write, close, marker), and of adoption (each rename, hint rename, each unlink of RemoveAll in every order); a second crash before every FS op of the recovering Open; then a final Open, one Put and a clean restart; plus: B-tree/mmap/multi-shard job, second merge generation under crash",
			"thorough": "K=3, batches, every map iteration order, power loss instead of process death",
		},
		Outside: "more than two crashes; power loss during merge in quick tier (merge output is not fsynced: see DESIGN findings); I/O errors",
		Stubs:   stubsCommon,
	})
}

func init() {
	register(&CheckDef{
		ID:    "C13",
		Title: "Sync policy is honoured: acknowledged means flushed when the options say so",
		Reach: []string{"done", "explicit-sync", "closed", "sync-batch", "rotated-checked", "threshold-some-unsynced", "recovered-from-torn-tail"},
		Jobs: func(tier string) []JobSpec {
			var js []JobSpec
			add := func(name string, params map[string]int64) {
				js = append(js, JobSpec{Name: name, Harness: "root", Func: "verifHarnessC13", Params: params, Scale: scaleDF(32), NoReplay: true})
			}
			base := p("pool", 2, "klen", 1, "vlens", 2, "index", 3, "shards", 1, "dfs_lo", 60, "dfs_hi", 120)
			k := 2
			if tier == "thorough" {
				k = 3
			}
			add("always-std", merge(base, p("k", k+1, "ops", opPut|opDelete|opSync|opRestart, "sync", syncAlways)))
			add("threshold-std", merge(base, p("k", k+1, "ops", opPut|opDelete, "sync", syncThreshold, "vlens", 3, "vbig", 25)))
			add("nosync-std-batch", merge(base, p("k", k, "ops", opPut|opSync|opBatch|opRestart, "sync", syncNo, "bsync", 1, "vlens", 1)))
			add("always-std-batch-rot", merge(base, p("k", k+1, "ops", opPut|opBatch, "sync", syncAlways, "vlens", 1, "dfs_lo", 130, "dfs_hi", 160)))
			// a plain (non-Sync) batch bypasses the per-write policy: an explicit Sync()/Close() after it must still flush it
			add("always-std-plainbatch-sync", merge(base, p("k", 2, "ops", opBatch|opSync|opRestart, "sync", syncAlways, "bsync", 0, "vlens", 1)))
			add("threshold-mmap-plainbatch-sync", merge(base, p("k", 2, "ops", opBatch|opSync|opRestart, "sync", syncThreshold, "bsync", 0, "vlens", 1, "io", 1)))
			// every (policy, batch Sync option, back-end) combination over the full call alphabet
			for _, sy := range []int{syncAlways, syncThreshold} {
				for bs := 0; bs <= 1; bs++ {
					for io := 0; io <= 1; io++ {
						ops := opPut | opSync | opBatch
						if tier != "quick" {
							ops |= opDelete
						} else if bs == 1 {
							continue // quick tier: Sync batches are covered by the jobs above
						}
						add(fmt.Sprintf("all-calls-sync%d-bsync%d-io%d", sy, bs, io), merge(base, p("k", 3, "ops", ops, "bmax", 1, "sync", sy, "bsync", bs, "io", io, "vlens", 1, "dfs_lo", 0, "dfs_hi", 0))) // no DataFileSize pressure: with small files the 70-byte batch reserve makes every Commit rotate (and fsync) first
					}
				}
			}
			// the policy after a recovery that dropped a torn tail (power loss cut at every length)
			add("always-std-after-torn-tail", merge(base, p("torntail", 1, "k", 2, "ops", opPut|opDelete|opSync, "sync", syncAlways, "vlens", 2, "dfs_lo", 0, "dfs_hi", 0)))
			if tier != "quick" {
				add("threshold-std-after-torn-tail-batch", merge(base, p("torntail", 1, "k", 2, "ops", opPut|opSync|opBatch, "sync", syncThreshold, "bsync", 1, "vlens", 2, "dfs_lo", 0, "dfs_hi", 0)))
			}
			add("always-mmap", merge(base, p("k", k, "ops", opPut|opDelete|opSync|opRestart, "sync", syncAlways, "io", 1)))
			add("threshold-mmap", merge(base, p("k", k, "ops", opPut|opDelete|opRestart, "sync", syncThreshold, "io", 1)))
			if tier == "thorough" {
				add("always-std-batch", merge(base, p("k", 3, "ops", opPut|opDelete|opBatch, "sync", syncAlways, "bsync", 1, "vlens", 1)))
				add("threshold-std-restart", merge(base, p("k", 4, "ops", opPut|opDelete|opSync|opRestart, "sync", syncThreshold, "vlens", 1)))
			}
			js = append(js, JobSpec{Name: "witness", Harness: "root", Func: "verifHarnessC13", Params: merge(base, p("k", 1, "ops", opPut, "witness", 1)), Scale: scaleDF(32), Witness: true})
			return js
		},
		Assumptions: []string{"what fsync/msync do in the kernel is trusted; observed is whether they were ISSUED before the call returned (FS model: per-file unsynced byte ranges tagged with the public call that wrote them)",
			"mmap: bytes changed through the mapping since the last msync are found by comparing the mapping with a shadow taken at msync time (a zero byte written over a zero byte is not counted); stores through a mapping are charged to the call (tag) during which they happened",
			"violations of this property are NOT replayed natively (fsync is invisible through the API); the replay directory holds the concrete operation sequence and the FS op log instead"},
		Bounds: map[string]string{
			"quick":    "K=2-3 calls over {Put,Delete,Sync,Close+Open,Sync batch<=2}, SyncStrategy Always/Threshold(BytesPerSync symbolic in [1,200])/No, DataFileSize symbolic in [60,120] (rotations), std and mmap; policy checked at every return; plus: the full call alphabet {Put,Sync,batch} per (policy, back-end) with non-Sync batches and no file-size pressure; plain batch then Sync()/Close(); stores through a mapping charged to the call that made them",
			"thorough": "K=3-4",
		},
		Outside: "kernel behaviour of fsync/msync; sequences longer than K; the inductive counter step for unbounded histories (not built)",
		Stubs:   stubsCommon,
	})
}

func init() {
	register(&CheckDef{
		ID:    "C12",
		Title: "Damaged bytes are detected or harmless, never served as data and never a panic",
		Reach: []string{"done", "bit-flip", "truncated", "block-garbage", "open-detected", "open-accepted", "get-detected", "value-served", "hint-damaged", "seq-error", "random-error", "damaged-while-open"},
		Jobs: func(tier string) []JobSpec {
			var js []JobSpec
			add := func(name string, params map[string]int64) {
				js = append(js, JobSpec{Name: name, Harness: "root", Func: "verifHarnessC12", Params: params, Scale: scaleDF(32), ConcCap: 300})
			}
			base := p("pool", 2, "klen", 1, "vlens", 2, "index", 3, "shards", 1, "blocksize", 32)
			gmax := 16
			if tier == "thorough" {
				gmax = 40
			}
			js = append(js, JobSpec{Name: "garbage-std", Harness: "datafile", Func: "verifHarnessC12Garbage", Params: p("maxsize", gmax, "io", 0), Scale: scaleDF(32), ConcCap: 300})
			js = append(js, JobSpec{Name: "garbage-mmap", Harness: "datafile", Func: "verifHarnessC12Garbage", Params: p("maxsize", gmax/2, "io", 1), Scale: scaleDF(32), ConcCap: 300})
			if tier == "quick" {
				add("k2", merge(base, p("k", 2, "ops", opPut|opDelete)))
				add("k2-rot-bigval", merge(base, p("k", 2, "ops", opPut, "vlens", 3, "vbig", 30, "dfs_lo", 60, "dfs_hi", 90)))
				add("k2-merge-hint", merge(base, p("k", 2, "ops", opPut|opDelete, "vlens", 1, "merge", 1)))
				add("k2-merge-hint-multichunk", merge(base, p("k", 2, "ops", opPut, "vlens", 3, "vbig", 30, "merge", 1)))
				add("k1-batch", merge(base, p("k", 1, "ops", opBatch, "bmax", 2, "vlens", 1)))
				// the damage happens while the database is OPEN (stale cached sizes, pooled buffers still holding other
				// blocks); DataFileSize 20 puts every record into its own file at the same in-block offset
				add("k2-damaged-while-open", merge(base, p("k", 2, "ops", opPut, "vlens", 3, "vbig", 8, "live", 1, "dfs_lo", 30, "dfs_hi", 30)))
				add("k2-damaged-while-open-onefile", merge(base, p("k", 2, "ops", opPut|opDelete, "vlens", 2, "live", 1)))
				// live damage inside a continuation chunk of a multi-chunk value, read back through the point-read path (S147)
				add("k1-damaged-while-open-multichunk", merge(base, p("k", 1, "ops", opPut, "vlens", 3, "vbig", 30, "live", 1)))
			} else {
				add("k3", merge(base, p("k", 3, "ops", opPut|opDelete)))
				add("k3-rot-bigval", merge(base, p("k", 3, "ops", opPut|opDelete, "vlens", 3, "vbig", 30, "dfs_lo", 60, "dfs_hi", 120)))
				add("k3-merge-hint", merge(base, p("k", 3, "ops", opPut|opDelete, "merge", 1, "dfs_lo", 60, "dfs_hi", 120)))
				add("k2-batch", merge(base, p("k", 2, "ops", opPut|opBatch, "bmax", 2, "vlens", 1)))
				add("k2-btree-mmap", merge(base, p("k", 2, "ops", opPut|opDelete, "index", 1, "io", 1)))
			}
			js = append(js, JobSpec{Name: "witness", Harness: "root", Func: "verifHarnessC12", Params: merge(base, p("k", 1, "ops", opPut, "witness", 1)), Scale: scaleDF(32), Witness: true, ConcCap: 300})
			return js
		},
		Assumptions: []string{"ideal checksum: (1) equal coverage => equal sums, (2) different coverage => different sums among the applications of a path, (3) no forgery: a value that is not itself a checksum result never equals one. CRC-32's strength (2^-32 collisions, adversarial splicing) is trusted, the repo's USE of it is decided",
			"single-site damage: one byte XOR a symbolic non-zero mask at a solver-enumerated position, or truncation to a solver-enumerated length, or one block replaced by symbolic garbage",
			"a truncated log may roll back to an earlier state (C03 requires exactly that): 'served as data' = a value that was once written for that key",
			"blockSize scaled to 32 (Level 1)"},
		Bounds: map[string]string{
			"quick":    "garbage files of every size 0..16 with fully symbolic content through NextLogRecord/NextHintRecord/ReadRecordValue(at any offset)/ReadMergeFinRecord; databases of K=1-2 ops (Put/Delete/batch, rotated files, multi-chunk value, finished merge awaiting adoption incl. hint file and marker) with every single-site damage of every file, then Open, Get of every key, Fold, ListKeys; plus damage applied while the database is OPEN (records in separate files, one file, and a two-chunk value read back through the point-read path)",
			"thorough": "garbage up to 40 bytes, K=3 histories, mmap reader",
		},
		Outside: "CRC-32 collisions; multi-site damage that also rewrites the checksum; adversarial splicing of valid chunks; damage while the database is open beyond the three live jobs; the oracle accepts any value that was once written for the key (a truncated log legitimately rolls back), so damage that makes the engine silently fall back to an OLDER value is noticed only through vanished error paths (reach labels), not as a violation (seeded change S127)",
		Stubs:   stubsCommon,
	})
}

func init() {
	register(&CheckDef{
		ID:    "C18",
		Title: "Hint files faithfully index the merged data files",
		Reach: []string{"done", "hint-entry-checked", "several-output-files", "second-generation", "second-merge-over-leftover-directory"},
		Jobs: func(tier string) []JobSpec {
			var js []JobSpec
			add := func(name string, params map[string]int64) {
				js = append(js, JobSpec{Name: name, Harness: "root", Func: "verifHarnessC18", Params: params, Scale: scaleDF(32)})
			}
			js = append(js, JobSpec{Name: "hint-codec-all-32-bit", Harness: "datafile", Func: "verifHarnessC18Codec", Params: p(), Scale: scaleDF(32), CrossCheck: tier == "thorough"})
			js = append(js, JobSpec{Name: "log-codec-all-64-bit", Harness: "datafile", Func: "verifHarnessC18LogCodec", Params: p(), Scale: scaleDF(32), CrossCheck: true})
			js = append(js, JobSpec{Name: "log-codec-varint-width-boundaries", Harness: "datafile", Func: "verifHarnessC18LogCodecWidths", Params: p(), Scale: scaleDF(32)})
			base := p("pool", 2, "klen", 2, "vlens", 2, "index", 3, "shards", 1, "dfs_lo", 60, "dfs_hi", 120)
			if tier == "quick" {
				add("k3", merge(base, p("k", 3, "ops", opPut|opDelete)))
				add("k2-batch-btree", merge(base, p("k", 2, "ops", opPut|opBatch, "bmax", 2, "vlens", 1, "index", 1)))
				add("k2-mmap", merge(base, p("k", 2, "ops", opPut|opDelete, "io", 1)))
				add("second-merge-generation", merge(base, p("premerge", 2, "k", 2, "ops", opPut|opDelete, "vlens", 1)))
				// two merges in one process, the first never adopted: the second runs over the leftover directory (S138)
				add("merge-merge-without-restart-k2", merge(base, p("premerge", 2, "prestay", 1, "k", 2, "ops", opPut|opDelete, "vlens", 1)))
				// DataFileSize smaller than some (or all) records: oversized records sit alone in their files, the merge
				// output has several files and the hint indexes records larger than the limit
				add("records-larger-than-dfs-k3", merge(base, p("k", 3, "ops", opPut|opDelete, "vlens", 3, "vbig", 25, "dfs_lo", 15, "dfs_hi", 45)))
				add("long-keys-k3", merge(base, p("ckeys", 6, "k", 3, "ops", opPut|opDelete, "vlens", 1, "dfs_lo", 80, "dfs_hi", 200)))
				add("cfgsweep-k2", merge(base, p("cfgsweep", 2, "k", 2, "ops", opPut|opDelete, "vlens", 1, "dfs_lo", 40, "dfs_hi", 40)))
			} else {
				add("k4", merge(base, p("k", 4, "ops", opPut|opDelete)))
				add("k3-pool3", merge(base, p("k", 3, "pool", 3, "klen", 3, "ops", opPut|opDelete, "vlens", 3, "vbig", 25)))
				add("k3-batch", merge(base, p("k", 3, "ops", opPut|opDelete|opBatch, "bmax", 2, "vlens", 1)))
				add("k3-mmap-skiplist", merge(base, p("k", 3, "ops", opPut|opDelete, "io", 1, "index", 2)))
				add("second-merge-generation-k3", merge(base, p("premerge", 2, "k", 3, "ops", opPut|opDelete)))
				add("second-merge-generation-mmap", merge(base, p("premerge", 2, "k", 2, "ops", opPut|opDelete, "io", 1)))
			}
			js = append(js, JobSpec{Name: "witness", Harness: "root", Func: "verifHarnessC18", Params: merge(base, p("k", 1, "ops", opPut, "witness", 1)), Scale: scaleDF(32), Witness: true})
			return js
		},
		Assumptions: []string{"blockSize scaled to 32 (Level 1)", "I/O never fails", "the codec harnesses are unbounded in the field values (all 32-bit / 64-bit values, every varint length) and bounded in key length (<= 3 bytes)"},
		Bounds: map[string]string{
			"quick":    "Encode/DecodeHintRecord for all 32-bit Fid/BlockID/Offset/Size and symbolic keys of 0-3 bytes; Encode/DecodeLogRecord(+Value) for all types, all 64-bit batch ids; Merge after K=2-3 ops (Put/Delete/batch) with symbolic 1-2 byte keys and DataFileSize symbolic (1-3 output files): hint entries vs records decoded at those positions, hinted key set vs scanned key set, hint-path Open vs scan-path Open (keys, values, positions incl. size); plus: a second merge generation; records larger than DataFileSize (DataFileSize symbolic in [15,45]); record codec at the uvarint width boundaries 127/128 and 16383/16384 for key and value; configuration as a choice point",
			"thorough": "K=3-4, pool of 3 keys up to 3 bytes, multi-chunk values, mmap",
		},
		Outside: "keys longer than 3 bytes; histories longer than K",
		Stubs:   stubsCommon,
	})
}

func init() {
	register(&CheckDef{
		ID:    "C16",
		Title: "A data directory has at most one open database at a time",
		Reach: []string{"done", "reopened-after-close", "failed-open-corrupt", "failed-open-injected", "stale-close", "racing-open-won", "racing-open-lost", "pending-merge", "open-panicked"},
		Jobs: func(tier string) []JobSpec {
			var js []JobSpec
			for idx := 1; idx <= 3; idx += 2 {
				js = append(js, JobSpec{Name: "sequential-" + idxName[idx], Harness: "root", Func: "verifHarnessC16", Params: p("index", idx, "shards", 1, "maxfail", 14), Scale: scaleDF(32)})
			}
			js = append(js, JobSpec{Name: "sequential-pending-merge-hashmap", Harness: "root", Func: "verifHarnessC16", Params: p("index", 3, "shards", 1, "maxfail", 14, "pendingmerge", 1), Scale: scaleDF(32)})
			// EnableBackgroundMerge: Open starts a goroutine (its ticker never fires in the engine's time model, it waits for Close)
			js = append(js, JobSpec{Name: "sequential-background-merge-enabled", Harness: "root", Func: "verifHarnessC16", Params: p("index", 3, "shards", 1, "maxfail", 14, "bgmerge", 1, "preempt", 0), Scale: scaleDF(32)})
			if tier == "thorough" {
				js = append(js, JobSpec{Name: "sequential-pending-merge-btree-mmap", Harness: "root", Func: "verifHarnessC16", Params: p("index", 1, "shards", 2, "maxfail", 30, "pendingmerge", 1, "io", 1), Scale: scaleDF(32)})
			}
			pre := 2
			if tier == "thorough" {
				pre = 4
			}
			js = append(js, JobSpec{Name: "racing-opens-fresh-dir", Harness: "root", Func: "verifHarnessC16Race", Params: p("index", 3, "shards", 1, "preempt", pre), Scale: scaleDF(32), NoReplay: true})
			js = append(js, JobSpec{Name: "close-racing-open", Harness: "root", Func: "verifHarnessC16CloseRace", Params: p("index", 3, "shards", 1, "preempt", pre), Scale: scaleDF(32), NoReplay: true})
			js = append(js, JobSpec{Name: "close-racing-open-mmap-prefilled", Harness: "root", Func: "verifHarnessC16CloseRace", Params: p("index", 3, "shards", 1, "preempt", pre, "io", 1, "prefill", 1), Scale: scaleDF(32), NoReplay: true})
			js = append(js, JobSpec{Name: "witness", Harness: "root", Func: "verifHarnessC16", Params: p("index", 3, "shards", 1, "maxfail", 14, "witness", 1), Scale: scaleDF(32), Witness: true})
			return js
		},
		Assumptions: []string{"flock contract: the lock is held on the INODE the lock file path named when it was taken (unlinking and re-creating the path gives a fresh, unlocked inode), one holder per inode, two Flock objects in one process conflict (as flock(2) does per open file description), all locks die with the process; real cross-process kernel behaviour is trusted, not checked",
			"for this property only one solver-chosen file-system call inside Open may return an error, so every error exit of Open after the lock is taken is driven",
			"racing Opens are interleaved at file-system and lock operations (engine threads); schedule violations are not replayed natively"},
		Bounds: map[string]string{
			"quick":    "open+put, rejected second Open (op log shows nothing but the lock file touched), Close, then: reopen / a damaged data file (every byte position, symbolic non-zero mask) makes Open fail or not, undo, reopen / the k-th FS call of Open fails for every k, reopen; two goroutines racing Open on a fresh directory with <= 2 preemptions; plus: refused Open while a FINISHED merge awaits adoption (directory listings and op log unchanged); an Open that leaves by a panic after taking the lock; the closing handle issues no FS operation once a racing Open holds the lock",
			"thorough": "<= 4 preemptions",
		},
		Outside: "other processes, NFS, kernel flock semantics, GC finalizers closing leaked descriptors",
		Stubs:   stubsCommon,
	})
}

func init() {
	// real data-file geometry (32 KiB blocks), mmap granule scaled to two real pages, model page size = 4096
	scaleMmap := map[string]string{"fio/mmap.go:blockSize": "8192"}
	register(&CheckDef{
		ID:    "C20",
		Title: "A backup taken at any time opens to the state at the time of the backup",
		Reach: []string{"done", "small-put-after-backup", "big-put-after-backup", "second-backup", "rotated", "batch-committed", "merged", "restarted", "backup-into-used-directory"},
		Jobs: func(tier string) []JobSpec {
			var js []JobSpec
			add := func(name string, params map[string]int64) {
				js = append(js, JobSpec{Name: name, Harness: "root", Func: "verifHarnessC20", Params: params, Scale: scaleMmap, PageSize: 4096})
			}
			base := p("pool", 2, "klen", 1, "vlens", 1, "index", 3, "shards", 1, "bigval", 5000)
			k := 2
			if tier == "thorough" {
				k = 3
			}
			add("mmap", merge(base, p("k", k, "ops", opPut|opDelete, "io", 1)))
			add("mmap-twice-rot", merge(base, p("k", k, "ops", opPut|opDelete, "io", 1, "twice", 1, "dfs_lo", 100, "dfs_hi", 100)))
			add("std-batch", merge(base, p("k", k, "ops", opPut|opDelete|opBatch, "bmax", 1, "io", 0, "twice", 1)))
			add("mmap-merge-restart-btree", merge(base, p("k", k+1, "ops", opPut|opMerge|opRestart, "io", 1, "index", 1)))
			// the same directory is backed up into twice, with Delete / Merge / restart (adoption) in between
			add("std-reuse-after-merge", merge(base, p("k", 2, "ops", opPut|opDelete, "io", 0, "reuse", 1, "k2", 3, "ops2", opDelete|opMerge|opRestart)))
			// Merge BEFORE the first backup, adoption (restart) between the two backups into the same directory
			add("std-merge-backup-adopt-backup", merge(base, p("k", 3, "ops", opPut|opDelete|opMerge, "io", 0, "reuse", 1, "k2", 1, "ops2", opRestart, "dfs_lo", 20, "dfs_hi", 60)))
			add("relative-directories-std", merge(base, p("k", 2, "ops", opPut|opDelete, "io", 0, "reldir", 1, "dfs_lo", 100, "dfs_hi", 100)))
			add("relative-directories-mmap", merge(base, p("k", 2, "ops", opPut|opDelete, "io", 1, "reldir", 1)))
			add("cfgsweep-k2", merge(base, p("cfgsweep", 2, "k", 2, "ops", opPut|opDelete, "dfs_lo", 100, "dfs_hi", 100)))
			if tier == "thorough" {
				add("mmap-reuse-after-merge", merge(base, p("k", 2, "ops", opPut|opDelete, "io", 1, "reuse", 1, "k2", 3, "ops2", opPut|opDelete|opMerge|opRestart)))
			}
			js = append(js, JobSpec{Name: "witness", Harness: "root", Func: "verifHarnessC20", Params: merge(base, p("k", 1, "ops", opPut, "io", 1, "witness", 1)), Scale: scaleMmap, PageSize: 4096, Witness: true})
			return js
		},
		Assumptions: []string{"mmap view model: a mapping aliases the file's bytes below its current size; bytes between the size and the end of its last 4096-byte page are scratch (visible through the mapping, never in the file, zeroed when the file grows over them); touching a page wholly beyond the size is SIGBUS (verified against the sandbox kernel at design time)",
			"real 32 KiB data-file blocks; the 512 MiB mmap granule is scaled to 8192 bytes (two pages) so that a 5000-byte value written after a truncation crosses a page; use-after-Unmap is not modelled",
			"I/O never fails"},
		Bounds: map[string]string{
			"quick":    "K=2 ops (Put/Delete/batch/Merge+restart) on 2 symbolic keys, Backup, then nothing / a 1-byte Put / a 5000-byte Put, optional second Backup (into a second directory, or into the SAME directory after Delete/Merge/adopting restart); the copy is opened while the source is open and compared with the state at backup time; the source is compared with the model live and after a restart; std and mmap; plus: configuration as a choice point",
			"thorough": "K=3",
		},
		Outside: "backups racing with writers (Backup holds the write lock); histories longer than K; the real 512 MiB granule",
		Stubs:   stubsCommon,
	})
}

func init() {
	const (
		cSet = 1 << iota
		cGet
		cDel
		cType
		cHSet
		cHGet
		cHDel
		cSAdd
		cSIsMember
		cSRem
		cLPush
		cRPush
		cLPop
		cZAdd
		cZScore
		cRestart
	)
	register(&CheckDef{
		ID:    "C19",
		Title: "Redis-style data structures behave like their abstract types and survive restart",
		Reach: []string{"done", "expired", "restarted", "popped", "merged"},
		Jobs: func(tier string) []JobSpec {
			var js []JobSpec
			add := func(name string, params map[string]int64) {
				js = append(js, JobSpec{Name: name, Harness: "datatype", Func: "verifHarnessC19", Params: params, Scale: scaleDF(32)})
			}
			if tier == "quick" {
				add("all-commands-1key-k2", p("k", 2, "keys", 1, "cmds", 65535))
				add("string-hash-del-type-2keys-k3", p("k", 3, "keys", 2, "cmds", cSet|cGet|cDel|cType|cHSet|cHGet|cHDel|cRestart))
				add("list-restart-k4", p("k", 4, "keys", 1, "cmds", cLPush|cLPop|cDel|cRestart))
				add("zset-btree-k3", p("k", 3, "keys", 1, "cmds", cZAdd|cZScore|cDel, "index", 1, "nscores", 2))
				add("zset-close-scores-k3", p("k", 3, "keys", 1, "cmds", cZAdd|cZScore, "scoreset", 1, "nscores", 2))
				add("string-negative-ttl-k3", p("k", 3, "keys", 1, "cmds", cSet|cGet|cType|cHSet|cLPush|cRestart, "negttl", 1))
				add("hash-arguments-from-one-buffer-k3", p("k", 3, "keys", 1, "cmds", cHSet|cHGet|cHDel|cRestart, "onebuf", 1))
				// a 6-byte member with arbitrary bytes next to a 1-byte one (known finding: member key vs score key)
				add("zset-arbitrary-6-byte-member-k2", p("k", 2, "keys", 1, "cmds", cZAdd|cZScore, "longmember", 1, "nscores", 3))
				add("set-type-k3", p("k", 3, "keys", 1, "cmds", cSAdd|cSRem|cSIsMember|cDel|cType|cSet))
				add("all-types-merge-restart-k3", p("k", 3, "keys", 1, "cmds", cSet|cGet|cHSet|cHGet|cSAdd|cSIsMember|cLPush|cLPop|cZAdd|cZScore|cRestart, "mergerestart", 1, "nscores", 1))
				// empty values and the empty field/member name are values/names like any other
				add("hash-empty-values-k3", p("k", 3, "keys", 1, "cmds", cHSet|cHGet|cHDel, "vlen0", 1, "elen0", 1))
				add("string-list-empty-values-k3", p("k", 3, "keys", 1, "cmds", cSet|cGet|cLPush|cLPop|cDel, "vlen0", 1))
				add("set-zset-empty-member-k3", p("k", 3, "keys", 1, "cmds", cSAdd|cSRem|cSIsMember|cZAdd|cZScore, "elen0", 1, "nscores", 1))
				// delete + re-create across a restart (a re-created key must start empty)
				add("hash-del-restart-k4", p("k", 4, "keys", 1, "cmds", cHSet|cHGet|cDel|cRestart))
				add("set-del-restart-k4", p("k", 4, "keys", 1, "cmds", cSAdd|cSIsMember|cDel|cRestart))
				add("zset-del-restart-k4", p("k", 4, "keys", 1, "cmds", cZAdd|cZScore|cDel|cRestart, "nscores", 1))
			} else {
				add("all-commands-1key-k4", p("k", 4, "keys", 1, "cmds", 65535))
				add("all-commands-2keys-k3", p("k", 3, "keys", 2, "cmds", 65535))
				add("list-restart-k5", p("k", 5, "keys", 1, "cmds", cLPush|cLPop|cDel|cRestart))
				add("zset-set-btree-k4", p("k", 4, "keys", 1, "cmds", cZAdd|cZScore|cSAdd|cSRem|cSIsMember|cDel|cRestart, "index", 1))
				add("zset-close-and-extreme-scores-k3", p("k", 3, "keys", 1, "cmds", cZAdd|cZScore, "scoreset", 1))
			}
			js = append(js, JobSpec{Name: "witness", Harness: "datatype", Func: "verifHarnessC19", Params: p("k", 1, "keys", 1, "cmds", cSet, "witness", 1), Scale: scaleDF(32), Witness: true})
			return js
		},
		Assumptions: []string{"clock: every command sees one instant; instants advance by exactly 1 ms per command (concrete); TTLs are {none, 1 ms (expired at the next command), 1 h}. Native replays sleep 2 ms per command",
			"scores from {-1.5, 0, 2} (symbolic floats are not supported by the engine)", "keys, fields/members and values are 1 symbolic byte; 'absent' replies are normalised (nil,nil / -1,nil / key-not-found)",
			"an emptied hash/set/list/zset keeps its type (as the implementation does)"},
		Bounds: map[string]string{
			"quick":    "K=2 commands from all 15 commands + restart over 1 key; K=3 over 2 keys for strings/hashes/Del/Type; K=4 for lists; K=3 for zsets (B-tree index) and for sets+Type+Set; 2 fields/members; plus: empty values and the empty field/member name; restart that adopts a Merge of all structure records",
			"thorough": "K=4 all commands on 1 key, K=3 all commands on 2 keys, K=5 lists",
		},
		Outside: "keys >= 9 bytes / members >= 5 bytes (could collide with an internal key|version|field encoding); symbolic clock and TTL arithmetic; score formatting beyond three values",
		Stubs:   stubsCommon,
	})
}

func init() {
	register(&CheckDef{
		ID:    "C08",
		Title: "Concurrent Put/Get/Delete are linearizable and agree with restart recovery",
		Reach: []string{"done"},
		Jobs: func(tier string) []JobSpec {
			var js []JobSpec
			add := func(name string, params map[string]int64, maxPaths int) {
				// the interleaving model (sequential consistency between switch points) is only sound for data-race-free
				// executions, so every C08 job also runs the happens-before check: a race voids the linearizability claim
				params["race"] = 1
				js = append(js, JobSpec{Name: name, Harness: "root", Func: "verifHarnessC08", Params: params, Scale: scaleDF(32), NoReplay: true, MaxPaths: maxPaths})
			}
			if tier == "quick" {
				add("2x1-hashmap", p("threads", 2, "opsper", 1, "pool", 1, "index", 3, "shards", 1, "preempt", 3, "preput", 1), 0)
				add("2x2-hashmap", p("threads", 2, "opsper", 2, "pool", 1, "index", 3, "shards", 1, "preempt", 2), 0)
				add("2x1-btree-2keys", p("threads", 2, "opsper", 1, "pool", 2, "index", 1, "shards", 2, "preempt", 2, "preput", 1), 0)
				add("2x1-merge", p("threads", 2, "opsper", 1, "pool", 1, "index", 3, "shards", 1, "preempt", 1, "merge", 1, "preput", 1), 0)
				add("1x2-merge-rotating-writer", p("threads", 1, "opsper", 2, "onlyput", 1, "pool", 2, "index", 3, "shards", 1, "preempt", 2, "merge", 1, "preput", 1, "dfs_lo", 60, "dfs_hi", 60), 0)
				add("2x1-sync-always", p("threads", 2, "opsper", 1, "pool", 1, "index", 3, "shards", 1, "preempt", 3, "preput", 1, "sync", 1), 0)
				add("2x1-put-vs-batch-commit", p("threads", 2, "opsper", 1, "pool", 1, "index", 3, "shards", 1, "preempt", 3, "preput", 1, "withbatch", 1, "onlyput", 1), 0)
				add("2x1-gets-in-different-blocks", p("threads", 2, "opsper", 1, "pool", 2, "index", 1, "shards", 1, "preempt", 3, "preput", 2, "onlyget", 1), 0)
				add("2x1-different-blocks-skiplist", p("threads", 2, "opsper", 1, "pool", 2, "index", 2, "shards", 1, "preempt", 2, "preput", 2), 0)
				add("2x1-sync-threshold-btree", p("threads", 2, "opsper", 1, "pool", 1, "index", 1, "shards", 1, "preempt", 2, "preput", 1, "sync", 2), 0)
			} else {
				add("2x2-hashmap-p3", p("threads", 2, "opsper", 2, "pool", 1, "index", 3, "shards", 1, "preempt", 3, "preput", 1), 0)
				add("3x1-skiplist", p("threads", 3, "opsper", 1, "pool", 1, "index", 2, "shards", 1, "preempt", 2, "preput", 1), 0)
				add("2x2-btree-2keys", p("threads", 2, "opsper", 2, "pool", 2, "index", 1, "shards", 2, "preempt", 2), 0)
				add("2x1-merge-p2", p("threads", 2, "opsper", 1, "pool", 1, "index", 3, "shards", 1, "preempt", 2, "merge", 1, "preput", 1), 0)
				add("2x1-merge-rotating-writers", p("threads", 2, "opsper", 1, "pool", 2, "index", 3, "shards", 1, "preempt", 2, "merge", 1, "preput", 1, "dfs_lo", 60, "dfs_hi", 60), 0)
				add("2x2-sync-always", p("threads", 2, "opsper", 2, "pool", 1, "index", 3, "shards", 1, "preempt", 3, "preput", 1, "sync", 1), 0)
				add("2x2-sync-threshold-mmap", p("threads", 2, "opsper", 2, "pool", 1, "index", 3, "shards", 1, "preempt", 2, "preput", 1, "sync", 2, "io", 1), 0)
			}
			js = append(js, JobSpec{Name: "witness", Harness: "root", Func: "verifHarnessC08", Params: p("threads", 1, "opsper", 1, "pool", 1, "index", 3, "shards", 1, "witness", 1), Scale: scaleDF(32), Witness: true})
			return js
		},
		Assumptions: []string{"interpreted goroutines switch only at visible operations: sync.Mutex/RWMutex calls (incl. the per-shard index locks), sync/atomic, sync.Pool, WaitGroup, file-system calls, goroutine start/exit; sequentially consistent memory between switch points",
			"RWMutex: writer preference (a pending writer blocks new readers)", "schedule violations are not replayed natively (no schedule hooks in the repository): the replay directory holds the schedule as a decision vector for the engine",
			"linearizability oracle: exists a total order respecting real time in which every Get returns the register's content; found flags concrete per path, values symbolic",
			"switch-point interleaving is only a sound model of Go for data-race-free executions, so every job also runs the happens-before (vector clock) race check of C09 over each explored schedule; a race among Put/Get/Delete is reported as a C08 violation because it voids the linearizability argument"},
		Bounds: map[string]string{
			"quick":    "2 goroutines x 1-2 operations from {Put(symbolic value), Delete, Get} on 1-2 keys, <= 2-3 preemptions, optional concurrent Merge (<= 1 preemption), SyncStrategy No / Always / Threshold (symbolic BytesPerSync 1..200); history checked for linearizability; at quiescence live dump == dump after Close+Open; every job also runs the happens-before check (incl. the shared offset of an open file description); Gets of keys stored in different blocks",
			"thorough": "3 goroutines x 1, 2 x 2 with 3 preemptions, Merge with 2 preemptions",
		},
		Outside: "4..16 clients; more than 3 preemptions; weak-memory effects; the background merge ticker",
		Stubs:   stubsCommon,
	})
	callNames := []string{"Put", "Get", "Delete", "ListKeys", "Fold", "Iterate", "Stat", "Sync", "Batch", "Merge"}
	register(&CheckDef{
		ID:    "C09",
		Title: "The public API is free of data races, panics and deadlocks under concurrent use",
		Reach: []string{"done", "adopted-merge"},
		Jobs: func(tier string) []JobSpec {
			var js []JobSpec
			add := func(name string, params map[string]int64) {
				js = append(js, JobSpec{Name: name, Harness: "root", Func: "verifHarnessC09", Params: params, Scale: scaleDF(32), NoReplay: true})
			}
			idxs := []int{1}
			pre := 2
			if tier == "thorough" {
				idxs = []int{1, 2, 3}
				pre = 3
			}
			for _, idx := range idxs {
				for a := 0; a < len(callNames); a++ {
					for b := a; b < len(callNames); b++ {
						pp := pre
						if a == 9 || b == 9 {
							pp = pre - 1 // Merge has an order of magnitude more switch points
						}
						add(fmt.Sprintf("%s-%s+%s", idxName[idx], callNames[a], callNames[b]), p("call0", a, "call1", b, "race", 1, "index", idx, "shards", 1, "preempt", pp, "dfs_lo", 100, "dfs_hi", 100))
					}
				}
			}
			// DataFileSize 20: the second pre-put already rotates, so key 0 lives in an OLDER file and every
			// writer below rotates again while the reader resolves a position in an older file
			for _, pr := range [][2]int{{1, 0}, {1, 2}, {1, 8}, {1, 9}, {4, 0}, {5, 0}, {1, 7}} {
				pp := pre
				if pr[1] == 9 {
					pp = pre - 1
				}
				add(fmt.Sprintf("older-file-%s+%s", callNames[pr[0]], callNames[pr[1]]), p("call0", pr[0], "call1", pr[1], "race", 1, "index", 3, "shards", 1, "preempt", pp, "dfs_lo", 20, "dfs_hi", 20))
			}
			// readers on files of an adopted merge (mmap and std): Get+Get, Get+Fold, Get+Merge
			for _, pr := range [][2]int{{1, 1}, {1, 4}, {1, 9}} {
				for io := 0; io <= 1; io++ {
					pp := pre
					if pr[1] == 9 {
						pp = pre - 1
					}
					add(fmt.Sprintf("adopted-merge-io%d-%s+%s", io, callNames[pr[0]], callNames[pr[1]]), p("call0", pr[0], "call1", pr[1], "race", 1, "index", 3, "shards", 1, "preempt", pp, "dfs_lo", 20, "dfs_hi", 20, "adopted", 1, "io", io))
				}
			}
			// three overlapping Merges: the one in progress, one that is rejected, one more
			add("hashmap-Merge+Merge+Merge", p("call0", 9, "call1", 9, "call2", 10, "race", 1, "index", 3, "shards", 1, "preempt", 1, "dfs_lo", 100, "dfs_hi", 100))
			if tier == "quick" {
				add("hashmap-Put+Delete", p("call0", 0, "call1", 2, "race", 1, "index", 3, "shards", 2, "preempt", 2))
				add("skiplist-Iterate+Put", p("call0", 5, "call1", 0, "race", 1, "index", 2, "shards", 1, "preempt", 2))
			} else {
				add("btree-Put+Delete+ListKeys", p("call0", 0, "call1", 2, "call2", 4, "race", 1, "index", 1, "shards", 1, "preempt", 2))
				add("hashmap-Put+Batch+Stat", p("call0", 0, "call1", 8, "call2", 7, "race", 1, "index", 3, "shards", 2, "preempt", 2))
			}
			js = append(js, JobSpec{Name: "witness", Harness: "root", Func: "verifHarnessC09", Params: p("call0", 0, "call1", 1, "index", 3, "shards", 1, "witness", 1), Scale: scaleDF(32), Witness: true})
			return js
		},
		Assumptions: []string{"same thread model as C08", "data races: happens-before (vector clock) check over every explored schedule on every heap cell, map object and atomically accessed word; sync/atomic vs plain access to one word is a conflict; sync.Pool Put->Get, WaitGroup Done->Wait, fork/join are synchronisation",
			"this replaces the order-variable SMT query sketched in the design: with all schedules inside the preemption bound explored anyway, the per-schedule happens-before check finds the same unordered pairs and is far simpler to trust",
			"schedule violations are not replayed natively"},
		Bounds: map[string]string{
			"quick":    "every unordered pair (55) of {Put, Get, Delete, ListKeys, Fold, iterator scan, Stat, Sync, batch+Commit, Merge} on a pre-populated B-tree database (DataFileSize 100 so rotations happen inside the run), <= 2 preemptions (1 with Merge); readers against writers with DataFileSize 20 (the read key lives in an older file, every write rotates); plus hash-map/skip-list samples; plus three overlapping Merges",
			"thorough": "all pairs for every index type with <= 3 preemptions, two triples",
		},
		Outside: "4..16 goroutines; races inside the Go runtime/stdlib; the background merge ticker; weak-memory effects",
		Stubs:   stubsCommon,
	})
}
