package main

import "fmt"

func p(kv ...interface{}) map[string]int64 {
	m := map[string]int64{}
	for i := 0; i+1 < len(kv); i += 2 {
		switch v := kv[i+1].(type) {
		case int:
			m[kv[i].(string)] = int64(v)
		case int64:
			m[kv[i].(string)] = v
		}
	}
	return m
}

func scaleDF(b int) map[string]string {
	return map[string]string{"datafile/log_record.go:blockSize": fmt.Sprint(b), "fio/mmap.go:blockSize": "128"}
}

var stubsCommon = []string{
	"in-memory POSIX-like FS (os.*, (*os.File).*): no I/O errors, ReadAt short read => io.EOF, ReadDir sorted",
	"hash/crc32: real CRC for concrete bytes, ideal checksum (fresh 32-bit variable per distinct coverage, injective on the path's applications) for symbolic bytes",
	"xxhash.Sum64: real for concrete keys, uninterpreted function (congruence only) for symbolic keys",
	"sync.Pool: LIFO always-reuse; sync.Mutex/RWMutex: engine primitives (double unlock / self-deadlock are fatal paths)",
	"bytes.Compare / string compare: lexicographic terms",
}

func init() {
	register(&CheckDef{
		ID:    "C11",
		Title: "Block/chunk framing round-trips every record at every offset",
		Reach: []string{"done", "multi-chunk", "padded-tail", "both-io-compared", "reopened", "reopened-with-padded-tail", "positional-offset-checked", "sequential-offset-checked", "reader-across-truncate", "reader-resumed-after-append"},
		Jobs: func(tier string) []JobSpec {
			var js []JobSpec
			add := func(name string, b int, params map[string]int64) {
				js = append(js, JobSpec{Name: name, Harness: "datafile", Func: "verifHarnessC11Scaled", Params: params, Scale: scaleDF(b), ConcCap: 256})
			}
			if tier == "quick" {
				add("B32-std-1rec", 32, p("n", 1, "maxlen", 70, "io", 0))
				add("B32-std-2rec", 32, p("n", 2, "maxlen", 34, "io", 0))
				add("B32-mmap-1rec", 32, p("n", 1, "maxlen", 70, "io", 1))
				add("B32-std-batch2", 32, p("n", 2, "maxlen", 34, "io", 0, "batch", 1))
				// close, reopen (same / other back-end), read everything again, append one more record
				add("B32-std-1rec-reader-resumed-after-append", 32, p("n", 1, "maxlen", 40, "io", 0, "resumeread", 1))
				add("B32-mmap-1rec-reader-resumed-after-append", 32, p("n", 1, "maxlen", 40, "io", 1, "resumeread", 1))
				add("B32-std-2rec-reader-across-truncate", 32, p("n", 2, "maxlen", 12, "io", 0, "truncread", 1))
				add("B32-mmap-2rec-reader-across-truncate", 32, p("n", 2, "maxlen", 12, "io", 1, "truncread", 1))
				add("B32-std-1rec-reopen-append", 32, p("n", 1, "maxlen", 40, "io", 0, "reopen", 1))
				add("B32-mmap-1rec-reopen-std-append", 32, p("n", 1, "maxlen", 40, "io", 1, "reopen", 1, "r_io", 1))
				add("B32-std-1rec-reopen-mmap-append", 32, p("n", 1, "maxlen", 40, "io", 0, "reopen", 1, "r_io", 2))
				js = append(js, JobSpec{Name: "B32-both-io-2rec", Harness: "datafile", Func: "verifHarnessC11BothIO", Params: p("n", 2, "maxlen", 34), Scale: scaleDF(32), ConcCap: 256})
				// mmap granule scaled to 48 so that one record crosses one or two remap boundaries
				js = append(js, JobSpec{Name: "B32-mmap48-1rec", Harness: "datafile", Func: "verifHarnessC11Scaled", Params: p("n", 1, "maxlen", 100, "io", 1),
					Scale: map[string]string{"datafile/log_record.go:blockSize": "32", "fio/mmap.go:blockSize": "48"}, ConcCap: 256})
			} else {
				js = append(js, JobSpec{Name: "B32-both-io-2rec", Harness: "datafile", Func: "verifHarnessC11BothIO", Params: p("n", 2, "maxlen", 70), Scale: scaleDF(32), ConcCap: 256})
				js = append(js, JobSpec{Name: "B32-mmap48-2rec", Harness: "datafile", Func: "verifHarnessC11Scaled", Params: p("n", 2, "maxlen", 60, "io", 1),
					Scale: map[string]string{"datafile/log_record.go:blockSize": "32", "fio/mmap.go:blockSize": "48"}, ConcCap: 256})
				add("B32-std-1rec", 32, p("n", 1, "maxlen", 100, "io", 0))
				add("B32-std-2rec", 32, p("n", 2, "maxlen", 70, "io", 0))
				add("B32-std-3rec", 32, p("n", 3, "maxlen", 34, "io", 0))
				add("B32-mmap-2rec", 32, p("n", 2, "maxlen", 70, "io", 1))
				add("B32-std-batch3", 32, p("n", 3, "maxlen", 34, "io", 0, "batch", 1))
				add("B32-mmap-batch2", 32, p("n", 2, "maxlen", 70, "io", 1, "batch", 1))
				add("B64-std-2rec", 64, p("n", 2, "maxlen", 70, "io", 0))
				add("B32-std-2rec-reopen-append", 32, p("n", 2, "maxlen", 40, "io", 0, "reopen", 1))
				add("B32-mmap-2rec-reopen-append", 32, p("n", 2, "maxlen", 40, "io", 1, "reopen", 1))
				add("B64-std-1rec-reopen-mmap-append", 64, p("n", 1, "maxlen", 70, "io", 0, "reopen", 1, "r_io", 2))
			}
			// real 32 KiB geometry: solver-enumerated lengths in the boundary classes
			realStd := map[string]string{}
			realMmap := map[string]string{"fio/mmap.go:blockSize": "262144"}
			addReal := func(name string, scale map[string]string, params map[string]int64) {
				js = append(js, JobSpec{Name: name, Harness: "datafile", Func: "verifHarnessC11Real", Params: params, Scale: scale, ConcCap: 256, PageSize: 4096})
			}
			if tier == "quick" {
				addReal("real-std-2rec", realStd, p("n", 2, "blocks", 2, "win", 9, "io", 0, "lastsmall", 1))
				addReal("real-std-batch2", realStd, p("n", 2, "blocks", 1, "win", 9, "io", 0, "batch", 1))
			} else {
				addReal("real-std-3rec", realStd, p("n", 3, "blocks", 2, "win", 9, "io", 0, "lastsmall", 1))
				addReal("real-std-2rec-3blocks", realStd, p("n", 2, "blocks", 3, "win", 12, "io", 0))
				addReal("real-std-batch3", realStd, p("n", 3, "blocks", 1, "win", 9, "io", 0, "batch", 1, "lastsmall", 1))
				addReal("real-mmap-2rec", realMmap, p("n", 2, "blocks", 2, "win", 9, "io", 1, "lastsmall", 1))
			}
			// position arithmetic for every 32-bit block id (files far beyond 4 GiB) at the real geometry, against a fake back-end
			js = append(js, JobSpec{Name: "real-offsets-all-32-bit-block-ids", Harness: "datafile", Func: "verifHarnessC11Offsets", Params: p(), Scale: map[string]string{}, CrossCheck: tier == "thorough"})
			js = append(js, JobSpec{Name: "witness", Harness: "datafile", Func: "verifHarnessC11Scaled", Params: p("n", 1, "maxlen", 2, "io", 0, "witness", 1), Scale: scaleDF(32), Witness: true})
			return js
		},
		Assumptions: []string{"blockSize scaled to 32/64 by AST rewrite of the current source (Level 1); mmap granule scaled to 128",
			"I/O never fails", "ideal checksum stands in for CRC-32 on symbolic bytes"},
		Bounds: map[string]string{
			"quick":    "scaled block 32: 1 record of every length 0..70 (keys 1-2 bytes), 2 records of every length pair 0..34; FileIO and MMap; single write and staged flush; all byte contents symbolic. REAL 32 KiB block: 2 records whose lengths the solver enumerates over every value that puts the record end within 9 bytes of a block boundary (records up to 2 blocks), single writes and a staged flush, concrete pattern content with symbolic first/last bytes; plus close + reopen (same or the other back-end), re-read of every record, append of one more record of every length, re-read",
			"thorough": "scaled block 32/64: 1 record 0..100, 2 records 0..70 each, 3 records 0..34 each; FileIO and MMap; single writes and staged multi-record flush; all byte contents symbolic. REAL 32 KiB block: 3 records (2 in boundary classes), records up to 3 blocks, staged flush of 3, mmap",
		},
		Outside: "at the real 32 KiB geometry only record ends within 9-12 bytes of a block boundary are enumerated (the scaled tiers cover every offset of a 32/64-byte block); files beyond 4 blocks (32-bit wrap of blockID*blockSize); more than 3 records per file; I/O errors",
		Stubs:   stubsCommon,
	})
}
