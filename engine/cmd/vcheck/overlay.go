package main

import (
	"bytes"
	"fmt"
	"go/ast"
	"go/parser"
	"go/printer"
	"go/token"
	"os"
	"path/filepath"
	"strconv"
	"strings"
)

// repoDir is /repo for every registered command; VERIF_REPO exists only so that long background sweeps can
// run against a snapshot of the repository while /repo itself is being used for seeded-change experiments.
var repoDir = func() string {
	if d := os.Getenv("VERIF_REPO"); d != "" {
		return d
	}
	return "/repo"
}()

var verifDir = func() string {
	if d := os.Getenv("VERIF_DIR"); d != "" {
		return d
	}
	return "/verif"
}()

// pkgDirOf maps a harness sub-directory to the repo package directory.
func pkgDirOf(h string) string {
	if h == "root" {
		return repoDir
	}
	return filepath.Join(repoDir, h)
}

func packageNameOf(dir string) (string, error) {
	ents, err := os.ReadDir(dir)
	if err != nil {
		return "", err
	}
	fset := token.NewFileSet()
	for _, e := range ents {
		if e.IsDir() || !strings.HasSuffix(e.Name(), ".go") || strings.HasSuffix(e.Name(), "_test.go") {
			continue
		}
		f, err := parser.ParseFile(fset, filepath.Join(dir, e.Name()), nil, parser.PackageClauseOnly)
		if err == nil {
			return f.Name.Name, nil
		}
	}
	return "", fmt.Errorf("no Go package in %s", dir)
}

// scaleConst rewrites `const name = <expr>` in file to the given literal. Fails loudly if not found.
func scaleConst(file, name, lit string) ([]byte, error) {
	fset := token.NewFileSet()
	f, err := parser.ParseFile(fset, file, nil, parser.ParseComments)
	if err != nil {
		return nil, err
	}
	found := false
	ast.Inspect(f, func(n ast.Node) bool {
		gd, ok := n.(*ast.GenDecl)
		if !ok || gd.Tok != token.CONST {
			return true
		}
		for _, sp := range gd.Specs {
			vs := sp.(*ast.ValueSpec)
			for i, id := range vs.Names {
				if id.Name == name && i < len(vs.Values) {
					vs.Values[i] = &ast.BasicLit{Kind: token.INT, Value: lit}
					found = true
				}
			}
		}
		return true
	})
	if !found {
		return nil, fmt.Errorf("constant %s not found in %s (scaled overlay impossible)", name, file)
	}
	var buf bytes.Buffer
	if err := printer.Fprint(&buf, fset, f); err != nil {
		return nil, err
	}
	return buf.Bytes(), nil
}

type overlaySpec struct {
	Harness  []string          // harness sub-directories to inject (e.g. "datafile", "root")
	Scale    map[string]string // "datafile/log_record.go:blockSize" -> "32"
	Native   bool              // native intrinsics (replay) instead of engine ones
	TestFile map[string][]byte // extra virtual files: repo-relative path -> content
}

// buildOverlay returns virtual path -> content.
func buildOverlay(spec overlaySpec) (map[string][]byte, error) {
	ov := map[string][]byte{}
	tmplName := "intrinsics_engine.go.tmpl"
	if spec.Native {
		tmplName = "intrinsics_native.go.tmpl"
	}
	tmpl, err := os.ReadFile(filepath.Join(verifDir, "harness", tmplName))
	if err != nil {
		return nil, err
	}
	for _, h := range spec.Harness {
		dir := pkgDirOf(h)
		pkg, err := packageNameOf(dir)
		if err != nil {
			return nil, err
		}
		suffix := ".go"
		if spec.Native {
			suffix = "_test.go"
		}
		ov[filepath.Join(dir, "zz_verif_intrinsics"+suffix)] = bytes.ReplaceAll(tmpl, []byte("PKGNAME"), []byte(pkg))
		files, _ := filepath.Glob(filepath.Join(verifDir, "harness", h, "*.go"))
		for _, f := range files {
			b, err := os.ReadFile(f)
			if err != nil {
				return nil, err
			}
			base := strings.TrimSuffix(filepath.Base(f), ".go")
			ov[filepath.Join(dir, "zz_verif_"+base+suffix)] = b
		}
	}
	for k, lit := range spec.Scale {
		if strings.HasPrefix(k, "value:") {
			continue
		}
		parts := strings.SplitN(k, ":", 2)
		file := filepath.Join(repoDir, parts[0])
		b, err := scaleConst(file, parts[1], lit)
		if err != nil {
			return nil, err
		}
		ov[file] = b
	}
	// co-scaling: the data-file block size may be restated elsewhere in the source (a second constant, an inline
	// 32*1024): every constant expression in the repository's own non-test files that evaluates to the ORIGINAL
	// value of datafile/log_record.go:blockSize is rewritten to the scaled value too, so that scaled jobs keep one
	// consistent geometry. (Nothing of the kind exists in the pinned tree; sites are listed in coScaled.)
	if lit, ok := spec.Scale["datafile/log_record.go:blockSize"]; ok {
		orig, err := constValueOf(filepath.Join(repoDir, "datafile/log_record.go"), "blockSize")
		if err == nil && orig > 1024 {
			for _, dir := range []string{".", "datafile", "index", "fio", "utils", "datatype"} {
				files, _ := filepath.Glob(filepath.Join(repoDir, dir, "*.go"))
				for _, f := range files {
					if strings.HasSuffix(f, "_test.go") || strings.HasPrefix(filepath.Base(f), "zz_verif_") {
						continue
					}
					src := ov[f]
					b, n, err := coScale(f, src, orig, lit, f == filepath.Join(repoDir, "datafile/log_record.go"))
					if err == nil && n > 0 {
						ov[f] = b
						coScaled = append(coScaled, fmt.Sprintf("%s: %d expression(s) equal to %d", strings.TrimPrefix(f, repoDir+"/"), n, orig))
					}
				}
			}
		}
	}
	// "value:<N>" scale keys: every constant expression equal to N in the repository's own files becomes the given
	// literal (for thresholds that are written inline, e.g. the 256 MiB floor of the merge-ratio check)
	for k, lit := range spec.Scale {
		if !strings.HasPrefix(k, "value:") {
			continue
		}
		orig, err := strconv.ParseInt(strings.TrimPrefix(k, "value:"), 0, 64)
		if err != nil {
			return nil, err
		}
		total := 0
		for _, dir := range []string{".", "datafile", "index", "fio", "utils", "datatype"} {
			files, _ := filepath.Glob(filepath.Join(repoDir, dir, "*.go"))
			for _, f := range files {
				if strings.HasSuffix(f, "_test.go") || strings.HasPrefix(filepath.Base(f), "zz_verif_") {
					continue
				}
				b, n, err := coScale(f, ov[f], orig, lit, false)
				if err == nil && n > 0 {
					ov[f] = b
					total += n
				}
			}
		}
		if total == 0 {
			return nil, fmt.Errorf("no constant expression equal to %d found (scaled overlay impossible)", orig)
		}
	}
	for rel, b := range spec.TestFile {
		ov[filepath.Join(repoDir, rel)] = b
	}
	return ov, nil
}

// coScaled lists the extra sites rewritten by the last buildOverlay call (reported with every scaled job).
var coScaled []string

func evalConstExpr(e ast.Expr) (int64, bool) {
	switch x := e.(type) {
	case *ast.BasicLit:
		if x.Kind != token.INT {
			return 0, false
		}
		v, err := strconv.ParseInt(x.Value, 0, 64)
		return v, err == nil
	case *ast.ParenExpr:
		return evalConstExpr(x.X)
	case *ast.BinaryExpr:
		a, ok1 := evalConstExpr(x.X)
		b, ok2 := evalConstExpr(x.Y)
		if !ok1 || !ok2 {
			return 0, false
		}
		switch x.Op {
		case token.MUL:
			return a * b, true
		case token.ADD:
			return a + b, true
		case token.SUB:
			return a - b, true
		case token.SHL:
			if b < 0 || b > 62 {
				return 0, false
			}
			return a << uint(b), true
		}
	}
	return 0, false
}

func constValueOf(file, name string) (int64, error) {
	fset := token.NewFileSet()
	f, err := parser.ParseFile(fset, file, nil, 0)
	if err != nil {
		return 0, err
	}
	var val int64
	found := false
	ast.Inspect(f, func(n ast.Node) bool {
		if vs, ok := n.(*ast.ValueSpec); ok {
			for i, id := range vs.Names {
				if id.Name == name && i < len(vs.Values) {
					if v, ok := evalConstExpr(vs.Values[i]); ok {
						val, found = v, true
					}
				}
			}
		}
		return true
	})
	if !found {
		return 0, fmt.Errorf("constant %s not evaluable", name)
	}
	return val, nil
}

// coScale rewrites every maximal integer constant expression equal to orig (skipping the declaration of blockSize
// itself, which scaleConst handles) and returns the new source and the number of rewrites.
func coScale(file string, src []byte, orig int64, lit string, isBlockFile bool) ([]byte, int, error) {
	fset := token.NewFileSet()
	var f *ast.File
	var err error
	if src != nil {
		f, err = parser.ParseFile(fset, file, src, parser.ParseComments)
	} else {
		f, err = parser.ParseFile(fset, file, nil, parser.ParseComments)
	}
	if err != nil {
		return nil, 0, err
	}
	n := 0
	repl := func(e ast.Expr) ast.Expr {
		if v, ok := evalConstExpr(e); ok && v == orig {
			n++
			return &ast.BasicLit{Kind: token.INT, Value: lit}
		}
		return nil
	}
	ast.Inspect(f, func(nd ast.Node) bool {
		switch x := nd.(type) {
		case *ast.ValueSpec:
			for i := range x.Values {
				if isBlockFile && i < len(x.Names) && x.Names[i].Name == "blockSize" {
					continue
				}
				if r := repl(x.Values[i]); r != nil {
					x.Values[i] = r
				}
			}
		case *ast.BinaryExpr:
			if r := repl(x.X); r != nil {
				x.X = r
			}
			if r := repl(x.Y); r != nil {
				x.Y = r
			}
		case *ast.CallExpr:
			for i := range x.Args {
				if r := repl(x.Args[i]); r != nil {
					x.Args[i] = r
				}
			}
		case *ast.AssignStmt:
			for i := range x.Rhs {
				if r := repl(x.Rhs[i]); r != nil {
					x.Rhs[i] = r
				}
			}
		case *ast.ReturnStmt:
			for i := range x.Results {
				if r := repl(x.Results[i]); r != nil {
					x.Results[i] = r
				}
			}
		case *ast.IndexExpr:
			if r := repl(x.Index); r != nil {
				x.Index = r
			}
		case *ast.SliceExpr:
			if x.Low != nil {
				if r := repl(x.Low); r != nil {
					x.Low = r
				}
			}
			if x.High != nil {
				if r := repl(x.High); r != nil {
					x.High = r
				}
			}
		}
		return true
	})
	if n == 0 {
		return nil, 0, nil
	}
	var buf bytes.Buffer
	if err := printer.Fprint(&buf, fset, f); err != nil {
		return nil, 0, err
	}
	return buf.Bytes(), n, nil
}
