package main

import (
	"bytes"
	"fmt"
	"go/ast"
	"go/parser"
	"go/printer"
	"go/token"
	"os"
	"path/filepath"
	"strings"
)

// repoDir is /repo for every registered command; VERIF_REPO exists only so that long background sweeps can
// run against a snapshot of the repository while /repo itself is being used for seeded-change experiments.
var repoDir = func() string {
	if d := os.Getenv("VERIF_REPO"); d != "" {
		return d
	}
	return "/repo"
}()

var verifDir = func() string {
	if d := os.Getenv("VERIF_DIR"); d != "" {
		return d
	}
	return "/verif"
}()

// pkgDirOf maps a harness sub-directory to the repo package directory.
func pkgDirOf(h string) string {
	if h == "root" {
		return repoDir
	}
	return filepath.Join(repoDir, h)
}

func packageNameOf(dir string) (string, error) {
	ents, err := os.ReadDir(dir)
	if err != nil {
		return "", err
	}
	fset := token.NewFileSet()
	for _, e := range ents {
		if e.IsDir() || !strings.HasSuffix(e.Name(), ".go") || strings.HasSuffix(e.Name(), "_test.go") {
			continue
		}
		f, err := parser.ParseFile(fset, filepath.Join(dir, e.Name()), nil, parser.PackageClauseOnly)
		if err == nil {
			return f.Name.Name, nil
		}
	}
	return "", fmt.Errorf("no Go package in %s", dir)
}

// scaleConst rewrites `const name = <expr>` in file to the given literal. Fails loudly if not found.
func scaleConst(file, name, lit string) ([]byte, error) {
	fset := token.NewFileSet()
	f, err := parser.ParseFile(fset, file, nil, parser.ParseComments)
	if err != nil {
		return nil, err
	}
	found := false
	ast.Inspect(f, func(n ast.Node) bool {
		gd, ok := n.(*ast.GenDecl)
		if !ok || gd.Tok != token.CONST {
			return true
		}
		for _, sp := range gd.Specs {
			vs := sp.(*ast.ValueSpec)
			for i, id := range vs.Names {
				if id.Name == name && i < len(vs.Values) {
					vs.Values[i] = &ast.BasicLit{Kind: token.INT, Value: lit}
					found = true
				}
			}
		}
		return true
	})
	if !found {
		return nil, fmt.Errorf("constant %s not found in %s (scaled overlay impossible)", name, file)
	}
	var buf bytes.Buffer
	if err := printer.Fprint(&buf, fset, f); err != nil {
		return nil, err
	}
	return buf.Bytes(), nil
}

type overlaySpec struct {
	Harness  []string          // harness sub-directories to inject (e.g. "datafile", "root")
	Scale    map[string]string // "datafile/log_record.go:blockSize" -> "32"
	Native   bool              // native intrinsics (replay) instead of engine ones
	TestFile map[string][]byte // extra virtual files: repo-relative path -> content
}

// buildOverlay returns virtual path -> content.
func buildOverlay(spec overlaySpec) (map[string][]byte, error) {
	ov := map[string][]byte{}
	tmplName := "intrinsics_engine.go.tmpl"
	if spec.Native {
		tmplName = "intrinsics_native.go.tmpl"
	}
	tmpl, err := os.ReadFile(filepath.Join(verifDir, "harness", tmplName))
	if err != nil {
		return nil, err
	}
	for _, h := range spec.Harness {
		dir := pkgDirOf(h)
		pkg, err := packageNameOf(dir)
		if err != nil {
			return nil, err
		}
		suffix := ".go"
		if spec.Native {
			suffix = "_test.go"
		}
		ov[filepath.Join(dir, "zz_verif_intrinsics"+suffix)] = bytes.ReplaceAll(tmpl, []byte("PKGNAME"), []byte(pkg))
		files, _ := filepath.Glob(filepath.Join(verifDir, "harness", h, "*.go"))
		for _, f := range files {
			b, err := os.ReadFile(f)
			if err != nil {
				return nil, err
			}
			base := strings.TrimSuffix(filepath.Base(f), ".go")
			ov[filepath.Join(dir, "zz_verif_"+base+suffix)] = b
		}
	}
	for k, lit := range spec.Scale {
		parts := strings.SplitN(k, ":", 2)
		file := filepath.Join(repoDir, parts[0])
		b, err := scaleConst(file, parts[1], lit)
		if err != nil {
			return nil, err
		}
		ov[file] = b
	}
	for rel, b := range spec.TestFile {
		ov[filepath.Join(repoDir, rel)] = b
	}
	return ov, nil
}
