package main

import (
	"encoding/json"
	"flag"
	"fmt"
	"os"
	"path/filepath"
	"sort"
	"strconv"
	"strings"
	"time"

	"gosx/sx"
)

type JobSpec struct {
	Name          string
	Harness       string // harness sub-directory: datafile, root, index, datatype, fio
	Func          string
	Params        map[string]int64
	Scale         map[string]string
	MaxPaths      int
	Budget        time.Duration
	ConcCap       int
	MaxSteps      int64
	PageSize      int
	ReplayRestore bool // native replay restores the FS image captured at the violation and runs the harness in phase-2 mode
	Witness       bool // vacuity twin: must end in the violation "witness"
	ReplayCount   int  // run the native replay this many times (map-iteration-order dependent harnesses)
	CrossCheck    bool // re-decide every solver query of this job with z3-new and cvc5
	NoReplay      bool // violations of this job cannot be replayed natively (schedule/fault harness); see DESIGN
}

type CheckDef struct {
	ID          string
	Title       string
	Jobs        func(tier string) []JobSpec
	Reach       []string // labels that must be reached by at least one path of the run
	Assumptions []string
	Bounds      map[string]string // tier -> text
	Outside     string
	Stubs       []string
}

var checks = map[string]*CheckDef{}

func register(c *CheckDef) { checks[c.ID] = c }

type knownFinding struct {
	ID       string `json:"id"`
	Property string `json:"property"`
	Status   string `json:"status"` // open | fixed
	Commit   string `json:"commit,omitempty"`
	What     string `json:"what"`
	Guard    string `json:"guard,omitempty"`
}

func loadKnown() ([]knownFinding, error) {
	b, err := os.ReadFile(filepath.Join(verifDir, "known_findings.json"))
	if os.IsNotExist(err) {
		return nil, nil
	}
	if err != nil {
		return nil, err
	}
	var kf struct {
		Findings []knownFinding `json:"findings"`
	}
	if err := json.Unmarshal(b, &kf); err != nil {
		return nil, err
	}
	return kf.Findings, nil
}

type evidence struct {
	PropertyID  string                 `json:"property_id"`
	Tier        string                 `json:"tier"`
	Seed        int                    `json:"seed"`
	Level       string                 `json:"level"`
	Coverage    map[string]interface{} `json:"coverage"`
	Assumptions []string               `json:"assumptions"`
	WallS       float64                `json:"wall_s"`
	Violations  int                    `json:"violations"`
}

func checkMain(args []string) {
	if len(args) < 1 {
		fmt.Fprintln(os.Stderr, "usage: vcheck <ID> [--tier quick|thorough]")
		os.Exit(2)
	}
	id := args[0]
	fs := flag.NewFlagSet("check", flag.ExitOnError)
	tier := fs.String("tier", os.Getenv("VERIF_TIER"), "quick|thorough")
	noKnown := fs.Bool("no-known", false, "ignore known_findings.json (report everything)")
	noReplay := fs.Bool("no-replay", false, "do not run native replays (dev)")
	only := fs.String("only", "", "run only jobs whose name contains this")
	verbose := fs.Bool("v", false, "verbose")
	workers := fs.Int("w", 0, "workers")
	fs.Parse(args[1:])
	if *tier == "" {
		*tier = "quick"
	}
	def := checks[id]
	if def == nil {
		fmt.Fprintf(os.Stderr, "unknown property %s\n", id)
		os.Exit(2)
	}
	seed, _ := strconv.Atoi(os.Getenv("VERIF_SEED"))
	os.Exit(runCheck(def, *tier, seed, *noKnown, *noReplay, *only, *verbose, *workers))
}

type jobOutcome struct {
	spec *JobSpec
	res  *sx.JobResult
}

func scaleKey(js *JobSpec) string {
	var ks []string
	for k, v := range js.Scale {
		ks = append(ks, k+"="+v)
	}
	sort.Strings(ks)
	return js.Harness + "|" + strings.Join(ks, ",")
}

func runCheck(def *CheckDef, tier string, seed int, noKnown, noReplay bool, only string, verbose bool, workers int) int {
	t0 := time.Now()
	known := map[string]bool{}
	kfs, err := loadKnown()
	if err != nil {
		fmt.Fprintln(os.Stderr, "known_findings.json:", err)
		return 2
	}
	kfByID := map[string]knownFinding{}
	if !noKnown {
		for _, k := range kfs {
			if k.Status == "open" {
				known[k.ID] = true
			}
			kfByID[k.ID] = k
		}
	}
	jobs := def.Jobs(tier)
	if tier == "thorough" {
		// the thorough tier includes every quick-tier job (same name: the thorough definition wins), so that a
		// scenario added to the quick tier can never be missing from the deeper run (and its reach labels with it)
		have := map[string]bool{}
		for _, j := range jobs {
			have[j.Name] = true
		}
		var extra []JobSpec
		for _, j := range def.Jobs("quick") {
			if !have[j.Name] {
				extra = append(extra, j)
			}
		}
		jobs = append(extra, jobs...)
	}
	checkBudget := 60 * time.Minute
	if v, err := strconv.Atoi(os.Getenv("VERIF_THOROUGH_MIN")); err == nil && v > 0 {
		checkBudget = time.Duration(v) * time.Minute
	}
	if only != "" {
		var f []JobSpec
		for _, j := range jobs {
			if strings.Contains(j.Name, only) {
				f = append(f, j)
			}
		}
		jobs = f
	}
	os.RemoveAll(filepath.Join(verifDir, "out", "replay", def.ID))
	progs := map[string]*sx.Program{}
	var outcomes []jobOutcome
	var inconclusive []string
	for i := range jobs {
		js := &jobs[i]
		key := scaleKey(js)
		P := progs[key]
		if P == nil {
			ov, err := buildOverlay(overlaySpec{Harness: []string{js.Harness}, Scale: js.Scale})
			if err != nil {
				fmt.Fprintln(os.Stderr, "inconclusive: overlay:", err)
				writeEvidence(def, tier, seed, nil, nil, []string{"overlay: " + err.Error()}, 0, time.Since(t0), nil)
				return 2
			}
			P, err = sx.Load(repoDir, []string{".", "./datafile", "./index", "./fio", "./utils", "./datatype"}, ov)
			if err != nil {
				fmt.Fprintln(os.Stderr, "inconclusive: harness does not compile against current source:", err)
				writeEvidence(def, tier, seed, nil, nil, []string{"harness does not compile against current source: " + err.Error()}, 0, time.Since(t0), nil)
				return 2
			}
			progs[key] = P
		}
		pkg := P.ModulePath
		if js.Harness != "root" {
			pkg += "/" + js.Harness
		}
		lim := sx.Limits{Workers: workers, MaxPaths: js.MaxPaths, ConcCap: js.ConcCap, MaxSteps: js.MaxSteps, MaxViolations: 40}
		if js.Witness {
			lim.MaxViolations = 1
		}
		budget := js.Budget
		if budget == 0 {
			// no job may run away: exceeding the budget is reported as inconclusive
			budget = 10 * time.Minute
			if tier == "thorough" {
				// thorough tier: 20 minutes per job, and the whole check inside checkBudget (default 60 min):
				// what is left is shared by the jobs still to run (never less than 2 minutes each); a job that
				// exhausts its share without a violation is reported as PARTIAL, not as success
				budget = 20 * time.Minute
				left := checkBudget - time.Since(t0)
				share := left / time.Duration(len(jobs)-i)
				if share < budget {
					budget = share
				}
				if budget < 2*time.Minute {
					budget = 2 * time.Minute
				}
			}
		}
		lim.Deadline = time.Now().Add(budget)
		if tier == "thorough" {
			lim.QueryMs = 60000
		}
		job := &sx.Job{Name: js.Name, Pkg: pkg, Func: js.Func, Params: js.Params, Limits: lim, Known: known, EnvOpts: sx.EnvOpts{PageSize: js.PageSize}, CrossCheck: js.CrossCheck || (tier == "thorough" && js.Witness)}
		res := P.RunJob(job)
		outcomes = append(outcomes, jobOutcome{js, res})
		if verbose {
			printJob(res, false)
		} else {
			fmt.Fprintf(os.Stderr, "  job %-40s %8.2fs paths=%v\n", js.Name, res.Wall.Seconds(), res.Counts)
		}
	}
	// ---- judge ----
	violations := 0
	exit := 0
	reach := map[string]int{}
	knownHits := map[string]int{}
	var samples []interface{}
	var replays []map[string]interface{}
	states, transitions, verdictQ, validated := 0, 0, 0, 0
	funcs := map[string]bool{}
	var qs struct{ q, sat, unsat, unknown, errs int }
	var solverT time.Duration
	distinct := 0
	distinctNT := 0
	crossQ, crossD := 0, 0
	passingValidated := 0
	// passing-path validation budget: quick = 4 jobs, thorough = every replayable job (VERIF_PASSING_ALL=1: every job in any tier)
	passingBudget := 4
	if tier == "thorough" || os.Getenv("VERIF_PASSING_ALL") == "1" {
		passingBudget = 1000
	}
	var passing []map[string]interface{}
	var partial []map[string]interface{}
	for _, o := range outcomes {
		r := o.res
		for k, v := range r.Reach {
			reach[k] += v
		}
		for k, v := range r.KnownHits {
			knownHits[k] += v
		}
		for f := range r.Funcs {
			funcs[f] = true
		}
		for st, n := range r.Counts {
			if st != sx.StDiscard {
				states += n
			}
		}
		distinct += r.Distinct
		distinctNT += r.DistinctNontrivial
		transitions += int(r.Decisions)
		verdictQ += r.Verdicts
		qs.q += r.Queries.Queries
		qs.sat += r.Queries.Sat
		qs.unsat += r.Queries.Unsat
		qs.unknown += r.Queries.Unknown
		qs.errs += r.Queries.Errors
		solverT += r.Queries.Time
		if r.Incomplete != "" && !r.StoppedOnViolations {
			if tier == "thorough" && strings.HasPrefix(r.Incomplete, "time budget reached") {
				// thorough tier: a job that exhausts its time budget without a violation is reported as PARTIAL
				// (depth-first exploration of the stated bound, not exhaustive); the quick tier stays strict
				partial = append(partial, map[string]interface{}{"job": o.spec.Name, "paths_explored": r.Counts[sx.StOK], "note": r.Incomplete})
			} else {
				inconclusive = append(inconclusive, o.spec.Name+": "+r.Incomplete)
			}
		}
		crossQ += r.CrossQueries
		crossD += r.CrossDisagreements
		if r.CrossDisagreements > 0 {
			inconclusive = append(inconclusive, fmt.Sprintf("%s: %d cross-solver disagreements", o.spec.Name, r.CrossDisagreements))
		}
		for _, e := range r.CrossErrors {
			inconclusive = append(inconclusive, o.spec.Name+": cross-solver check: "+e)
		}
		if r.Queries.Errors > 0 {
			inconclusive = append(inconclusive, fmt.Sprintf("%s: %d solver errors", o.spec.Name, r.Queries.Errors))
		}
		if r.UncertainOK > 0 {
			inconclusive = append(inconclusive, fmt.Sprintf("%s: %d paths passed through an undecided branch", o.spec.Name, r.UncertainOK))
		}
		for _, s := range r.OKSamples {
			if len(samples) < 6 {
				samples = append(samples, map[string]interface{}{"job": o.spec.Name, "status": "ok", "choices": s.Choices, "decisions": len(s.Trace), "steps": s.Steps, "notes": s.Notes, "model": trimModel(s.Model)})
			}
		}
		// passing-path validation: a model of a passing symbolic path must also pass natively
		if !o.spec.NoReplay && !o.spec.Witness && !noReplay && len(r.OKSamples) > 0 && passingValidated < passingBudget {
			// the sample that went furthest: most reach labels, then the longest decision trace
			s := r.OKSamples[0]
			for _, c := range r.OKSamples[1:] {
				if len(c.Reach) > len(s.Reach) || (len(c.Reach) == len(s.Reach) && len(c.Trace) > len(s.Trace)) {
					s = c
				}
			}
			ro, err := writeReplayIn(def.ID, "passing", o.spec, s, passingValidated, known, true)
			if err == nil {
				passingValidated++
				validated++
				if ro.Result != "ok" && !strings.HasPrefix(ro.Result, "known") && ro.Result != "assume-false" {
					inconclusive = append(inconclusive, fmt.Sprintf("%s: a passing symbolic path does not pass natively (native: %s) — engine/stub mismatch, see %s", o.spec.Name, ro.Result, ro.Dir))
				}
				passing = append(passing, map[string]interface{}{"job": o.spec.Name, "native_result": ro.Result})
			}
		}
		if o.spec.Witness {
			ok := false
			for _, p := range r.Paths {
				if p.Status == sx.StViolation && p.AssertID == "witness" {
					ok = true
				}
			}
			if !ok {
				inconclusive = append(inconclusive, o.spec.Name+": vacuity witness not violated (harness end unreachable)")
			}
			continue
		}
		seen := map[string]int{}
		jobReplays := 0
		// replay first the counterexamples whose bytes could be adjusted to a special checksum value (they are the
		// ones that can reproduce when a path depends on such a value)
		sort.SliceStable(r.Paths, func(i, j int) bool {
			return r.Paths[i].Notes["crc-forged"] != "" && r.Paths[j].Notes["crc-forged"] == ""
		})
		reproducedKey := map[string]bool{}
		notReproduced := map[string]string{}
		for _, p := range r.Paths {
			switch p.Status {
			case sx.StViolation:
				key := p.AssertID + "|" + stripDigits(firstLine(p.Msg))
				if reproducedKey[key] {
					continue
				}
				seen[key]++
				// up to 3 different paths per assertion are replayed until one reproduces; at most 6 replays per job
				// (so that one job's unreproducible counterexamples cannot starve another job's) and 40 per run
				if seen[key] > 3 || jobReplays >= 6 || len(replays) >= 40 {
					continue
				}
				jobReplays++
				if o.spec.NoReplay || noReplay {
					if seen[key] > 1 {
						continue
					}
					violations++
					fmt.Printf("  violation (not natively replayable) %s: %s choices=%v notes=%v\n", p.AssertID, firstLine(p.Msg), p.Choices, p.Notes)
					ro, _ := writeReplay(def.ID, o.spec, p, len(replays), known, false)
					replays = append(replays, map[string]interface{}{"job": o.spec.Name, "assert": p.AssertID, "dir": ro.Dir, "reproduced": "not-run"})
					if o.spec.NoReplay {
						fmt.Printf("VIOLATION property=%s replay=%s\n", def.ID, ro.Dir)
						exit = 1
					}
					continue
				}
				ro, err := writeReplay(def.ID, o.spec, p, len(replays), known, true)
				if err != nil {
					inconclusive = append(inconclusive, "replay setup failed: "+err.Error())
					continue
				}
				validated++
				replays = append(replays, map[string]interface{}{"job": o.spec.Name, "assert": p.AssertID, "msg": firstLine(p.Msg), "dir": ro.Dir, "native_result": ro.Result, "reproduced": ro.Reproduced})
				if ro.Reproduced {
					violations++
					exit = 1
					reproducedKey[key] = true
					delete(notReproduced, key)
					fmt.Printf("  counterexample %s (%s) reproduced natively: %s\n", p.AssertID, firstLine(p.Msg), ro.Result)
					fmt.Printf("VIOLATION property=%s replay=%s\n", def.ID, ro.Dir)
				} else {
					notReproduced[key] = fmt.Sprintf("%s: engine counterexample %s did not reproduce natively (native: %s) — engine/stub mismatch, see %s", o.spec.Name, p.AssertID, ro.Result, ro.Dir)
				}
			case sx.StKnown:
			case sx.StUnsupported, sx.StBudget, sx.StInternal:
				key := p.Status.String() + "|" + firstLine(p.Msg)
				seen[key]++
				if seen[key] == 1 {
					inconclusive = append(inconclusive, fmt.Sprintf("%s: %s: %s", o.spec.Name, p.Status, firstLine(p.Msg)))
				}
			}
		}
		for _, m := range notReproduced {
			inconclusive = append(inconclusive, m)
		}
	}
	for _, l := range def.Reach {
		if reach[l] == 0 && only == "" {
			inconclusive = append(inconclusive, "reachability witness never hit: "+l)
		}
	}
	var khList []string
	for id, n := range knownHits {
		what := kfByID[id].What
		fmt.Printf("KNOWN-FINDING: property=%s %s — %s (%d paths)\n", def.ID, id, what, n)
		khList = append(khList, id)
	}
	sort.Strings(khList)
	if exit == 0 && len(inconclusive) > 0 {
		exit = 2
	}
	for _, s := range inconclusive {
		fmt.Fprintln(os.Stderr, "inconclusive:", s)
	}
	cov := map[string]interface{}{
		"states":                          states,
		"transitions":                     transitions,
		"traces_validated_against_impl":   validated,
		"evaluations":                     states,
		"distinct_nontrivial":             distinctNT,
		"distinct_paths":                  distinct,
		"rule":                            "one evaluation = one completed symbolic path of a harness (a path covers every value of its symbolic variables, not one input); distinct = distinct decision vectors (counted in a set); non-trivial = not discarded by an assumption AND the solver decided at least one branch, concretisation or verdict on it (paths made of harness choice points only are trivial)",
		"verdict_queries_nonconstant":     verdictQ,
		"queries":                         map[string]int{"total": qs.q, "sat": qs.sat, "unsat": qs.unsat, "unknown": qs.unknown, "error": qs.errs},
		"solver_time_s":                   solverT.Seconds(),
		"solver":                          "z3 4.8.12 (z3 -in), one process per worker",
		"reach_labels":                    reach,
		"known_findings_hit":              khList,
		"inconclusive_reasons":            inconclusive,
		"partial_jobs":                    partial,
		"cross_solver_queries":            crossQ,
		"cross_solver_disagreements":      crossD,
		"replays":                         replays,
		"passing_paths_replayed_natively": passing,
		"bounds":                          def.Bounds[tier],
		"outside_claim":                   def.Outside,
		"stubs":                           def.Stubs,
		"functions_encoded":               repoFuncs(funcs),
		"functions_encoded_total":         len(funcs),
		"exhaustive":                      len(inconclusive) == 0 && len(partial) == 0,
	}
	var jobsCov []map[string]interface{}
	for _, o := range outcomes {
		jobsCov = append(jobsCov, map[string]interface{}{"job": o.spec.Name, "params": o.spec.Params, "scale": o.spec.Scale, "paths": countsStr(o.res.Counts), "wall_s": o.res.Wall.Seconds(), "steps": o.res.Steps})
	}
	cov["jobs"] = jobsCov
	if len(samples) == 0 {
		samples = append(samples, map[string]interface{}{"note": "no completed path"})
	}
	cov["samples"] = samples
	writeEvidence(def, tier, seed, cov, nil, inconclusive, violations, time.Since(t0), nil)
	fmt.Fprintf(os.Stderr, "%s %s: exit %d, %d jobs, %d paths, %d queries, %.1fs\n", def.ID, tier, exit, len(outcomes), states, qs.q, time.Since(t0).Seconds())
	return exit
}

func countsStr(m map[sx.Status]int) map[string]int {
	out := map[string]int{}
	for k, v := range m {
		out[k.String()] = v
	}
	return out
}

func repoFuncs(funcs map[string]bool) []string {
	var out []string
	for f := range funcs {
		if strings.Contains(f, "XiXi-2024/xixi-kv") && !strings.Contains(f, "verifHarness") && !strings.Contains(f, ".verif") {
			out = append(out, strings.ReplaceAll(f, "github.com/XiXi-2024/xixi-kv", "xixi-kv"))
		}
	}
	sort.Strings(out)
	return out
}

func writeEvidence(def *CheckDef, tier string, seed int, cov map[string]interface{}, _ interface{}, inconclusive []string, violations int, wall time.Duration, _ interface{}) {
	if cov == nil {
		cov = map[string]interface{}{"states": 0, "transitions": 0, "traces_validated_against_impl": 0, "evaluations": 0, "distinct_nontrivial": 0,
			"samples": []interface{}{map[string]interface{}{"note": "run did not start"}}, "inconclusive_reasons": inconclusive}
	}
	assumptions := append([]string{}, def.Assumptions...)
	if len(coScaled) > 0 {
		seen := map[string]bool{}
		for _, c := range coScaled {
			if !seen[c] {
				seen[c] = true
				assumptions = append(assumptions, "scaled geometry: constant expressions equal to the original data-file block size were scaled along with it - "+c)
			}
		}
	}
	ev := evidence{PropertyID: def.ID, Tier: tier, Seed: seed, Level: "model_checking", Coverage: cov, Assumptions: assumptions, WallS: wall.Seconds(), Violations: violations}
	b, _ := json.MarshalIndent(ev, "", " ")
	evDir := filepath.Join(verifDir, "evidence")
	if d := os.Getenv("VERIF_EVIDENCE_DIR"); d != "" {
		evDir = d // experiments against modified trees (seeded changes) must not overwrite the committed evidence
	}
	os.MkdirAll(evDir, 0755)
	os.WriteFile(filepath.Join(evDir, def.ID+".json"), b, 0644)
}

func trimModel(m map[string]uint64) map[string]uint64 {
	out := map[string]uint64{}
	n := 0
	for _, k := range sortedModelKeys(m) {
		if strings.HasPrefix(k, "crc#") || strings.HasPrefix(k, "xxh#") {
			continue
		}
		out[k] = m[k]
		n++
		if n >= 24 {
			break
		}
	}
	return out
}

func sortedModelKeys(m map[string]uint64) []string {
	ks := make([]string, 0, len(m))
	for k := range m {
		ks = append(ks, k)
	}
	sort.Strings(ks)
	return ks
}

func stripDigits(s string) string {
	var sb strings.Builder
	for _, r := range s {
		if r >= '0' && r <= '9' {
			continue
		}
		sb.WriteRune(r)
	}
	return sb.String()
}
